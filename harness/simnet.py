"""simnet: run the REAL aioftp server and client in-process on an in-memory network with a
virtual clock.  No change to /repo: `asyncio.start_server` and `aioftp.client.open_connection`
are looked up at call time by aioftp, so they are patched from here.

What it gives the property harnesses:
  * exact quiescence (`await net.settle()`): nothing is runnable at the current virtual instant;
  * virtual time: `await asyncio.sleep(t)` costs no wall time; timers fire in order;
  * control over segmentation, holding (stalling) and cutting of every byte stream;
  * a ledger of transports / listeners / tasks for resource accounting;
  * scripted bind outcomes and suspension points for listener start-up (C11)."""
import asyncio
import collections
import contextlib
import errno
import heapq
import socket

HIGH_WATER = 64 * 1024
LOW_WATER = 16 * 1024


class VirtualLoop(asyncio.SelectorEventLoop):
    def __init__(self):
        super().__init__()
        self._vt = 0.0
        self._jobs = 0  # outstanding executor jobs

    def time(self):
        return self._vt

    def run_in_executor(self, executor, func, *args):
        self._jobs += 1
        fut = super().run_in_executor(executor, func, *args)

        def done(_):
            self._jobs -= 1

        fut.add_done_callback(done)
        return fut

    def _run_once(self):
        if not self._ready and self._scheduled and self._jobs == 0:
            while self._scheduled and self._scheduled[0]._cancelled:
                h = heapq.heappop(self._scheduled)
                h._scheduled = False
                self._timer_cancelled_count = max(0, self._timer_cancelled_count - 1)
            if self._scheduled and self._scheduled[0]._when > self._vt:
                self._vt = self._scheduled[0]._when
        super()._run_once()


class FakeSock:
    def __init__(self, family, name):
        self.family = family
        self._name = name

    def getsockname(self):
        return self._name


class Link:
    """one direction of a connection: FIFO of segments from `src` transport to `dst` transport"""

    def __init__(self, net, src, dst):
        self.net = net
        self.src = src
        self.dst = dst
        self.q = collections.deque()
        self.bytes_queued = 0
        self.hold = False  # stalled: nothing is delivered while set
        self.latency = 0
        self.segmenter = None  # bytes -> list[bytes]
        self.scheduled = False
        self.delivered = 0
        self.events = 0
        self.cut_after_events = None  # deliver this many events, then drop everything (peer vanished)
        self.dropped = False

    def push(self, kind, data=b""):
        if self.dropped:
            return
        if kind == "data" and self.segmenter is not None:
            for seg in self.segmenter(data):
                if seg:
                    self.q.append(("data", seg))
                    self.bytes_queued += len(seg)
        else:
            self.q.append((kind, data))
            self.bytes_queued += len(data)
        self.kick()

    def kick(self):
        if not self.scheduled and self.q and not self.hold and not self.dst.read_paused:
            self.scheduled = True
            if self.latency:
                self.net.loop.call_later(self.latency, self.pump)
            else:
                self.net.loop.call_soon(self.pump)

    def release(self):
        self.hold = False
        self.kick()

    def pump(self):
        self.scheduled = False
        if self.hold or self.dst.read_paused or not self.q:
            return
        kind, data = self.q.popleft()
        self.bytes_queued -= len(data)
        self.events += 1
        if kind == "data":
            self.delivered += len(data)
            self.dst._data_received(data)
        elif kind == "eof":
            self.dst._eof_received()
        elif kind == "rst":
            self.dst._fatal(ConnectionResetError(errno.ECONNRESET, "Connection reset by peer"))
        if self.cut_after_events is not None and self.events >= self.cut_after_events:
            self.q.clear()
            self.dropped = True
        self.src._maybe_resume_writing()
        self.kick()


class MemTransport(asyncio.Transport):
    def __init__(self, net, protocol, extra, label):
        super().__init__(extra)
        self.net = net
        self.protocol = protocol
        self.label = label
        self.peer = None
        self.out = None  # Link to peer
        self.closing = False
        self.closed = False
        self.lost_called = False
        self.read_paused = False
        self.write_paused = False
        self.peer_gone = False  # peer closed its side completely
        self.bytes_written = 0
        self.got_eof = False

    # ---- asyncio.Transport API
    def is_closing(self):
        return self.closing

    def get_protocol(self):
        return self.protocol

    def set_protocol(self, p):
        self.protocol = p

    def pause_reading(self):
        self.read_paused = True

    def resume_reading(self):
        self.read_paused = False
        if self.peer is not None and self.peer.out is not None:
            self.peer.out.kick()

    def is_reading(self):
        return not self.read_paused and not self.closing

    def set_write_buffer_limits(self, high=None, low=None):
        pass

    def get_write_buffer_limits(self):
        return (LOW_WATER, HIGH_WATER)

    def get_write_buffer_size(self):
        return self.out.bytes_queued if self.out else 0

    def can_write_eof(self):
        return True

    def write_eof(self):
        if not self.closing:
            self.out.push("eof")

    def write(self, data):
        if self.closing or self.closed:
            return
        data = bytes(data)
        if not data:
            return
        self.bytes_written += len(data)
        if self.peer_gone:
            # the peer's socket is gone: a real kernel answers with RST; surface it asynchronously
            self.net.loop.call_soon(self._fatal, ConnectionResetError(errno.ECONNRESET, "Connection reset by peer"))
            return
        self.out.push("data", data)
        if not self.write_paused and self.out.bytes_queued > HIGH_WATER:
            self.write_paused = True
            try:
                self.protocol.pause_writing()
            except Exception:
                pass

    def _maybe_resume_writing(self):
        if self.write_paused and self.out.bytes_queued <= LOW_WATER:
            self.write_paused = False
            if not self.closed:
                try:
                    self.protocol.resume_writing()
                except Exception:
                    pass

    def close(self):
        if self.closing:
            return
        self.closing = True
        self.out.push("eof")
        self.out.push("gone")
        self.net.loop.call_soon(self._connection_lost, None)

    def abort(self):
        if self.closed:
            return
        self.closing = True
        self.out.q.clear()
        self.out.bytes_queued = 0
        self.out.push("rst")
        self.net.loop.call_soon(self._connection_lost, None)

    # ---- delivery from the peer
    def _data_received(self, data):
        if self.closing or self.closed:
            return
        self.protocol.data_received(data)

    def _eof_received(self):
        if self.closing or self.closed or self.got_eof:
            return
        self.got_eof = True
        keep = self.protocol.eof_received()
        if not keep:
            self.close()

    def _fatal(self, exc):
        if self.closed:
            return
        self.closing = True
        self._connection_lost(exc)

    def _connection_lost(self, exc):
        if self.lost_called:
            return
        self.lost_called = True
        self.closed = True
        try:
            self.protocol.connection_lost(exc)
        finally:
            self.net._transport_closed(self)


# Link needs to understand the "gone" marker (peer fully closed): mark and continue
_orig_pump = Link.pump


def _pump(self):
    if self.q and self.q[0][0] == "gone" and not self.hold and not self.dst.read_paused:
        self.scheduled = False
        self.q.popleft()
        self.dst.peer_gone = True
        self.src._maybe_resume_writing()
        self.kick()
        return
    _orig_pump(self)


Link.pump = _pump


class Listener:
    def __init__(self, net, cb, host, port, family):
        self.net = net
        self.cb = cb
        self.host = host
        self.port = port
        self.family = family
        self.sockets = [FakeSock(family, (host, port) if family == socket.AF_INET else (host, port, 0, 0))]
        self.closed = False
        self.serving = True
        self.accepted = 0

    def close(self):
        if not self.closed:
            self.closed = True
            self.net.listeners.pop(self.port, None)
            self.net.closed_listeners.append(self)
            self.sockets = []

    def is_serving(self):
        return not self.closed

    async def wait_closed(self):
        await asyncio.sleep(0)

    async def start_serving(self):
        """asyncio.Server.start_serving: the second suspension point of a listener start-up when the
        server was created with start_serving=False (the caller holds the handle already)"""
        if self.serving:
            return
        self.serving = True
        if self.net.bind_gate is not None:
            g = self.net.bind_gate(self.port, 2)
            if g is not None:
                await g
        await asyncio.sleep(0)

    async def serve_forever(self):
        await asyncio.Event().wait()

    def get_loop(self):
        return self.net.loop


class Network:
    def __init__(self, loop):
        self.loop = loop
        self.listeners = {}
        self.closed_listeners = []
        self.transports = []
        self.next_port = 40000
        self.next_client_port = 50000
        self.bind_script = {}  # port -> list of outcomes for successive bind attempts: None | OSError instance
        self.bind_gate = None  # callable(port, stage) -> awaitable or None ; stage in (1, 2)
        self.bind_log = []
        self.on_connect = None  # callable(client_transport, server_transport)
        self.default_segmenter = None

    # ---- patched entry points
    async def start_server(self, cb, host=None, port=None, **kw):
        port = port or 0
        self.bind_log.append(("attempt", port))
        # first suspension point of loop.create_server (address resolution)
        if self.bind_gate is not None:
            g = self.bind_gate(port, 1)
            if g is not None:
                await g
        await asyncio.sleep(0)
        script = self.bind_script.get(port)
        if script:
            out = script.pop(0)
            if out is not None:
                self.bind_log.append(("fail", port, type(out).__name__, getattr(out, "errno", None)))
                raise out
        if port == 0:
            while self.next_port in self.listeners:
                self.next_port += 1
            port = self.next_port
            self.next_port += 1
        elif port in self.listeners:
            self.bind_log.append(("fail", port, "OSError", errno.EADDRINUSE))
            raise OSError(errno.EADDRINUSE, f"error while attempting to bind on address ({host!r}, {port}): address already in use")
        family = socket.AF_INET6 if host and ":" in host else socket.AF_INET
        lst = Listener(self, cb, host or "127.0.0.1", port, family)
        self.listeners[port] = lst
        self.bind_log.append(("bound", port))
        if not kw.get("start_serving", True):
            # asyncio.start_server(..., start_serving=False): no suspension after the bind; the caller
            # awaits Listener.start_serving() itself (and owns the handle if that is cancelled)
            lst.serving = False
            return lst
        # second suspension point (start_serving)
        try:
            if self.bind_gate is not None:
                g = self.bind_gate(port, 2)
                if g is not None:
                    await g
            await asyncio.sleep(0)
        except BaseException:
            # asyncio closes the half-started server when create_server is cancelled after binding?
            # It does NOT: the sockets of a server whose start_serving was interrupted stay bound until
            # garbage collection.  Keep the listener registered and record that nobody owns it.
            lst.orphan = True
            raise
        return lst

    async def open_connection(self, host=None, port=None, **kw):
        await asyncio.sleep(0)
        lst = self.listeners.get(port)
        if lst is None or lst.closed:
            raise ConnectionRefusedError(errno.ECONNREFUSED, f"Connect call failed ({host!r}, {port})")
        cport = self.next_client_port
        self.next_client_port += 1
        fam6 = lst.family == socket.AF_INET6
        caddr = ("::1", cport, 0, 0) if fam6 else ("127.0.0.1", cport)
        saddr = (lst.host, lst.port, 0, 0) if fam6 else (lst.host, lst.port)
        loop = self.loop
        creader = asyncio.StreamReader(loop=loop)
        cproto = asyncio.StreamReaderProtocol(creader, loop=loop)
        sreader = asyncio.StreamReader(loop=loop)
        sproto = asyncio.StreamReaderProtocol(sreader, lst.cb, loop=loop)
        ct = MemTransport(self, cproto, {"peername": saddr, "sockname": caddr}, f"c:{cport}->{lst.port}")
        st = MemTransport(self, sproto, {"peername": caddr, "sockname": saddr}, f"s:{lst.port}<-{cport}")
        ct.peer, st.peer = st, ct
        ct.out = Link(self, ct, st)
        st.out = Link(self, st, ct)
        if self.default_segmenter is not None:
            ct.out.segmenter = self.default_segmenter
            st.out.segmenter = self.default_segmenter
        self.transports += [ct, st]
        lst.accepted += 1
        ct.listener_port = st.listener_port = lst.port
        ct.side, st.side = "client", "server"
        if self.on_connect is not None:
            self.on_connect(ct, st)
        sproto.connection_made(st)
        cproto.connection_made(ct)
        cwriter = asyncio.StreamWriter(ct, cproto, creader, loop)
        return creader, cwriter

    def _transport_closed(self, t):
        pass

    # ---- ledger
    def open_transports(self, side=None):
        return [t for t in self.transports if not t.closed and (side is None or t.side == side)]

    def open_listeners(self):
        return [l for l in self.listeners.values() if not l.closed]

    async def settle(self, rounds=3):
        """return when nothing else is runnable at the current virtual instant (timers may be pending)"""
        quiet = 0
        for _ in range(100000):
            await asyncio.sleep(0)
            if len(self.loop._ready) == 0 and self.loop._jobs == 0:
                quiet += 1
                if quiet >= rounds:
                    return
            else:
                quiet = 0
                if self.loop._jobs:
                    await asyncio.sleep(0)
        raise RuntimeError("simnet.settle: no quiescence")

    @contextlib.contextmanager
    def patched(self):
        import aioftp.client as ac

        old_ss, old_oc = asyncio.start_server, ac.open_connection
        asyncio.start_server = self.start_server
        ac.open_connection = self.open_connection
        try:
            yield self
        finally:
            asyncio.start_server = old_ss
            ac.open_connection = old_oc


def run(main, *, wall_timeout=120):
    """run `await main(net)` on a fresh virtual loop with the network patched in; returns its result.
    Leftover tasks are cancelled and reported in net.leftover_tasks."""
    loop = VirtualLoop()
    asyncio.set_event_loop(loop)
    net = Network(loop)
    try:
        with net.patched():

            async def wrapper():
                me = asyncio.current_task()
                try:
                    return await main(net)
                finally:
                    await asyncio.sleep(0)
                    net.leftover_tasks = [t for t in asyncio.all_tasks() if t is not me and not t.done()]

            import signal

            def on_alarm(*a):
                raise TimeoutError(f"simnet.run: wall timeout {wall_timeout}s")

            old = signal.signal(signal.SIGALRM, on_alarm)
            signal.alarm(wall_timeout)
            try:
                return loop.run_until_complete(wrapper())
            finally:
                signal.alarm(0)
                signal.signal(signal.SIGALRM, old)
    finally:
        try:
            pending = [t for t in asyncio.all_tasks(loop) if not t.done()]
            for t in pending:
                t.cancel()
            if pending:
                loop.run_until_complete(asyncio.gather(*pending, return_exceptions=True))
            loop.run_until_complete(loop.shutdown_default_executor())
        except Exception:
            pass
        asyncio.set_event_loop(None)
        loop.close()


class Raw:
    """A raw control-channel peer: send bytes, collect replies with exact quiescence."""

    def __init__(self, net, reader, writer):
        self.net = net
        self.reader = reader
        self.writer = writer
        self.buf = b""
        self.eof = False

    @classmethod
    async def connect(cls, net, port):
        r, w = await net.open_connection("127.0.0.1", port)
        return cls(net, r, w)

    async def drain_replies(self):
        """everything the server has said so far (after settling), as a list of (code, lines)"""
        await self.net.settle()
        return self.take()

    def take(self):
        data = bytes(self.reader._buffer)
        self.reader._buffer.clear()
        self.reader._maybe_resume_transport()
        self.eof = self.reader.at_eof() or self.reader._eof
        self.buf += data
        lines = self.buf.split(b"\r\n")
        self.buf = lines.pop()
        out = []
        for l in lines:
            out.append(l.decode("utf-8", "replace"))
        return out

    async def send(self, line):
        if isinstance(line, str):
            line = line.encode("utf-8")
        self.writer.write(line + b"\r\n")
        return await self.drain_replies()

    def close(self):
        self.writer.close()


def final_codes(lines):
    """reply codes of complete replies in a list of raw reply lines ('250-..' continuation lines skipped)"""
    out = []
    for l in lines:
        if len(l) >= 4 and l[:3].isdigit() and l[3] == " ":
            out.append(l[:3])
        elif len(l) == 3 and l.isdigit():
            out.append(l)
    return out
