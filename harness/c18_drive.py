"""C18 drivers: run the REAL aioftp storage backends (MemoryPathIO, PathIO, AsyncPathIO)
 (1) at the backend API, one operation at a time, and
 (2) behind real aioftp.Server instances over loopback with a raw protocol client,
and take canonical tree snapshots (names, types, file bytes) without going through the
backend under test (os.* for the file system, the Node objects for the in-memory tree).

Trees are nested lists:  tree = [[name, bytes] | [name, tree], ...]   (a file is bytes,
a directory a list); canonical form sorts by name at every level."""
import asyncio
import io
import os
import pathlib
import re
import shutil
import stat as stat_mod

import aioftp
from aioftp import pathio as aio_pathio

MODES = ["rb", "wb", "ab", "r+b", "bad"]
BACKENDS = ["memory", "pathio", "asyncpathio"]
STEP_TIMEOUT = 8.0


# ----------------------------------------------------------------------------------------
# trees
def canon(tree):
    return sorted(([n, c if isinstance(c, bytes) else canon(c)] for n, c in tree), key=lambda e: e[0])


def tree_json(tree):
    return [[n, c.hex() if isinstance(c, bytes) else tree_json(c)] for n, c in tree]


def snapshot_fs(root):
    out = []
    with os.scandir(root) as it:
        entries = sorted(it, key=lambda e: e.name)
    for e in entries:
        if e.is_dir(follow_symlinks=False):
            out.append([e.name, snapshot_fs(e.path)])
        else:
            with open(e.path, "rb") as f:
                out.append([e.name, f.read()])
    return out


def build_fs(root, tree):
    for name, c in tree:
        p = os.path.join(root, name)
        if isinstance(c, bytes):
            with open(p, "wb") as f:
                f.write(c)
        else:
            os.mkdir(p)
            build_fs(p, c)


def reset_fs(root, tree):
    for e in os.scandir(root):
        if e.is_dir(follow_symlinks=False):
            shutil.rmtree(e.path)
        else:
            os.unlink(e.path)
    build_fs(root, tree)


def build_mem_nodes(tree):
    nodes = []
    for name, c in tree:
        if isinstance(c, bytes):
            nodes.append(aio_pathio.Node("file", name, content=io.BytesIO(c)))
        else:
            nodes.append(aio_pathio.Node("dir", name, content=build_mem_nodes(c)))
    return nodes


def new_mem_state(tree):
    return [aio_pathio.Node("dir", "/", content=build_mem_nodes(tree))]


def snapshot_mem_nodes(nodes, ordered=False, seen=None):
    """in insertion order when ordered, else sorted.  Cycles cannot be reached from the root
    (a detached cycle is simply not in the tree any more)."""
    out = []
    for n in nodes:
        if n.type == "file":
            out.append([n.name, bytes(n.content.getvalue())])
        else:
            out.append([n.name, snapshot_mem_nodes(n.content, ordered)])
    return out if ordered else sorted(out, key=lambda e: e[0])


def snapshot_mem(state, ordered=False):
    return snapshot_mem_nodes(state[0].content, ordered)


# ----------------------------------------------------------------------------------------
# API level
def err_of(exc):
    """PathIOError -> ['err', inner class name, errno-or-None]"""
    inner = exc.reason[1] if getattr(exc, "reason", None) else None
    errno = getattr(inner, "errno", None)
    if errno is None and type(inner) is OSError:
        # MemoryPathIO raises plain OSError(message): rmdir of a non-empty directory, rename into the own subtree
        errno = {"Directory not empty": 39, "Invalid argument": 22}.get(str(inner))
    return ["err", type(inner).__name__, errno]


async def api_op(pio, root, op, ordered_list=False):
    """op: ('exists', parts) | ('is_dir', parts) | ('is_file', parts) | ('mkdir', parts, parents, exist_ok)
    | ('rmdir', parts) | ('unlink', parts) | ('list', parts) | ('stat', parts) | ('rename', a, b)
    | ('open', parts, mode, script)   script: [('seek', off) | ('read', n) | ('write', bytes)]"""

    def P(parts):
        return root.joinpath(*parts)

    tag = op[0]
    try:
        if tag == "exists":
            return ["ok", bool(await pio.exists(P(op[1])))]
        if tag == "is_dir":
            return ["ok", bool(await pio.is_dir(P(op[1])))]
        if tag == "is_file":
            return ["ok", bool(await pio.is_file(P(op[1])))]
        if tag == "mkdir":
            r = await pio.mkdir(P(op[1]), parents=op[2], exist_ok=op[3])
            return ["ok", r]
        if tag == "rmdir":
            return ["ok", await pio.rmdir(P(op[1]))]
        if tag == "unlink":
            return ["ok", await pio.unlink(P(op[1]))]
        if tag == "list":
            base = P(op[1])
            items = await pio.list(base)
            for p in items:
                if p.parent != base:
                    return ["ok", ["foreign-entry", str(p)]]
            names = [p.name for p in items]
            return ["ok", names if ordered_list else sorted(names)]
        if tag == "stat":
            st = await pio.stat(P(op[1]))
            if stat_mod.S_ISDIR(st.st_mode):
                return ["ok", ["d"]]
            if stat_mod.S_ISREG(st.st_mode):
                return ["ok", ["f", st.st_size]]
            return ["ok", ["?"]]
        if tag == "rename":
            r = await pio.rename(P(op[1]), P(op[2]))
            return ["ok", None]
        if tag == "open":
            f = await pio.open(P(op[1]), mode=op[2])
            res = []
            try:
                for h in op[3]:
                    try:
                        if h[0] == "seek":
                            res.append(["ok", await f.seek(h[1])])
                        elif h[0] == "read":
                            res.append(["ok", bytes(await f.read(h[1]))])
                        elif h[0] == "write":
                            res.append(["ok", await f.write(h[1])])
                        else:
                            raise AssertionError(h)
                    except aioftp.PathIOError as e:
                        res.append(err_of(e))
            finally:
                await f.close()
            return ["ok", res]
        raise AssertionError(op)
    except aioftp.PathIOError as e:
        return err_of(e)
    except AssertionError:
        raise
    except Exception as e:  # anything escaping universal_exception
        return ["exc", type(e).__name__]


class ApiBackend:
    """one real backend instance + the place its tree lives"""

    def __init__(self, kind, tmp_root=None):
        self.kind = kind
        if kind == "memory":
            self.pio = aioftp.MemoryPathIO()
            self.root = pathlib.Path("/")
        else:
            self.dir = pathlib.Path(tmp_root)
            self.dir.mkdir(parents=True, exist_ok=True)
            self.root = self.dir
            self.pio = aioftp.PathIO() if kind == "pathio" else aioftp.AsyncPathIO()

    def reset(self, tree):
        if self.kind == "memory":
            self.pio.fs = new_mem_state(tree)
        else:
            reset_fs(self.root, tree)

    def snapshot(self, ordered=False):
        if self.kind == "memory":
            return snapshot_mem(self.pio.fs, ordered)
        return snapshot_fs(self.root)

    async def run(self, tree, ops, ordered=False):
        """-> [(result, tree after)] for each op, from a fresh copy of `tree`"""
        self.reset(tree)
        out = []
        for op in ops:
            r = await api_op(self.pio, self.root, op, ordered_list=ordered)
            out.append((r, self.snapshot(ordered)))
        return out

    async def run_steps(self, tree, steps, ordered=False):
        """Primitive API steps with several handles open at once (the backend API as the property quantifies over it:
        open / seek / read / write / close are separate operations, anything may happen in between):
          ('h_open', slot, parts, mode) | ('h_seek', slot, off) | ('h_read', slot, n) | ('h_write', slot, bytes)
          | ('h_close', slot) | any op of api_op
        -> [(observation, tree after)] per step, then one entry per handle still open (closed in slot order), from a
        fresh copy of `tree`.  Every exception is an observation; a step on a slot that holds no handle is ['skip']."""
        self.reset(tree)
        handles = {}
        out = []

        async def one(st):
            tag = st[0]
            if not tag.startswith("h_"):
                return await api_op(self.pio, self.root, st, ordered_list=ordered)
            slot = st[1]
            try:
                if tag == "h_open":
                    if slot in handles:
                        return ["skip"]
                    handles[slot] = await self.pio.open(self.root.joinpath(*st[2]), mode=st[3])
                    return ["ok", "handle"]
                f = handles.get(slot)
                if f is None:
                    return ["skip"]
                if tag == "h_seek":
                    return ["ok", await f.seek(st[2])]
                if tag == "h_read":
                    return ["ok", bytes(await f.read(st[2]))]
                if tag == "h_write":
                    return ["ok", await f.write(st[2])]
                if tag == "h_close":
                    del handles[slot]
                    return ["ok", await f.close()]
                raise AssertionError(st)
            except aioftp.PathIOError as e:
                return err_of(e)
            except AssertionError:
                raise
            except Exception as e:  # anything escaping universal_exception
                return ["exc", type(e).__name__]

        try:
            for st in steps:
                r = await one(st)
                out.append((r, self.snapshot(ordered)))
            for slot in sorted(handles):
                r = await one(("h_close", slot))
                out.append((r, self.snapshot(ordered)))
        finally:
            for f in list(handles.values()):   # never leak a descriptor into the next sequence
                try:
                    await f.close()
                except Exception:
                    pass
            handles.clear()
        return out

    def cleanup(self):
        if self.kind != "memory":
            shutil.rmtree(self.dir, ignore_errors=True)


# ----------------------------------------------------------------------------------------
# FTP level
REPLY_END = re.compile(rb"^(\d{3}) ")


class RawClient:
    """minimal raw FTP client: no interpretation beyond reply framing and PASV"""

    def __init__(self, host, port):
        self.host, self.port = host, port

    async def connect(self):
        self.r, self.w = await asyncio.open_connection(self.host, self.port)
        return await self.reply()

    async def reply(self):
        lines = []
        while True:
            line = await asyncio.wait_for(self.r.readline(), STEP_TIMEOUT)
            if not line:
                return ("EOF", lines)
            lines.append(line.rstrip(b"\r\n").decode("utf-8", "replace"))
            m = REPLY_END.match(line)
            if m and (len(lines) == 1 or lines[0][:3] == m.group(1).decode()):
                return (m.group(1).decode(), lines)

    async def cmd(self, line):
        self.w.write(line.encode("utf-8") + b"\r\n")
        await self.w.drain()
        return await self.reply()

    async def pasv(self):
        code, lines = await self.cmd("PASV")
        if code != "227":
            return code, None
        nums = list(map(int, re.search(r"\(([\d,]+)\)", lines[-1]).group(1).split(",")))
        host = ".".join(map(str, nums[:4]))
        port = (nums[4] << 8) | nums[5]
        dr, dw = await asyncio.wait_for(asyncio.open_connection(host, port), STEP_TIMEOUT)
        return code, (dr, dw)

    def close(self):
        try:
            self.w.close()
        except Exception:
            pass


def parse_list_line(line):
    f = line.split()
    if len(f) < 9:
        return ["?", line]
    kind = "d" if f[0].startswith("d") else ("f" if f[0].startswith("-") else "?")
    name = f[-1]
    return [name, kind] + ([int(f[4])] if kind == "f" else [])


def parse_mlsx_line(line):
    line = line.strip()
    facts, _, name = line.partition(" ")
    d = {}
    for kv in facts.split(";"):
        if "=" in kv:
            k, v = kv.split("=", 1)
            d[k.lower()] = v
    kind = {"dir": "d", "file": "f"}.get(d.get("type"), "?")
    return [name, kind] + ([int(d.get("size", -1))] if kind == "f" else [])


async def ftp_step(cl, c):
    """one client-visible operation -> canonical observation (codes, payload)
    c: ('MKD'|'RMD'|'DELE'|'RNFR'|'RNTO'|'CWD'|'MLST'|'REST', arg) | ('PWD',) | ('CDUP',)
       | ('STOR'|'APPE', path, data, rest|None) | ('RETR'|'LIST'|'MLSD', path, rest|None)"""
    verb = c[0]
    if verb in ("MKD", "RMD", "DELE", "RNFR", "RNTO", "CWD", "REST"):
        code, lines = await cl.cmd(f"{verb} {c[1]}")
        return [code]
    if verb in ("PWD", "CDUP"):
        code, lines = await cl.cmd(verb)
        return [code, lines[-1][4:]] if verb == "PWD" else [code]
    if verb == "MLST":
        code, lines = await cl.cmd(f"MLST {c[1]}")
        if code == "250" and len(lines) == 3:
            e = parse_mlsx_line(lines[1])
            if c[1].strip("/") == "":
                e[0] = ""  # MLST of the virtual root prints the name of the REAL base directory (harness artefact)
            return [code, e]
        return [code]
    # transfers: PASV, connect, [REST n], VERB path
    path = c[1]
    rest = c[-1]
    pcode, conn = await cl.pasv()
    if conn is None:
        return ["pasv:" + pcode]
    dr, dw = conn
    obs = []
    try:
        if rest is not None:
            rcode, _ = await cl.cmd(f"REST {rest}")
            obs.append(rcode)
        code, _ = await cl.cmd(f"{verb} {path}")
        obs.append(code)
        if not code.startswith("1"):
            return obs
        if verb in ("STOR", "APPE"):
            data = c[2]
            if data:
                dw.write(data)
                try:
                    await asyncio.wait_for(dw.drain(), STEP_TIMEOUT)
                except ConnectionError:
                    pass
            dw.close()
            code2, _ = await cl.reply()
            obs.append(code2)
            return obs
        # download-like: read data while waiting for the completion reply; the server does not
        # close the data connection when the backend open fails (finding F4 of C13), so do not
        # wait for EOF after a non-2xx completion.
        rd = asyncio.ensure_future(dr.read(-1))
        code2, _ = await cl.reply()
        obs.append(code2)
        if code2.startswith("2"):
            payload = await asyncio.wait_for(rd, STEP_TIMEOUT)
        else:
            rd.cancel()
            try:
                await rd
            except (asyncio.CancelledError, Exception):
                pass
            payload = None
        if payload is None:
            obs.append(None)
        elif verb == "RETR":
            obs.append(payload)
        else:
            lines = [l for l in payload.decode("utf-8", "replace").split("\r\n") if l]
            parse = parse_list_line if verb == "LIST" else parse_mlsx_line
            obs.append(sorted(parse(l) for l in lines))
        return obs
    finally:
        try:
            dw.close()
        except Exception:
            pass


class FtpBackend:
    """a real aioftp.Server on one backend, listening on loopback"""

    def __init__(self, kind, tmp_root=None):
        self.kind = kind
        factory = {"memory": aioftp.MemoryPathIO, "pathio": aioftp.PathIO, "asyncpathio": aioftp.AsyncPathIO}[kind]
        if kind == "memory":
            self.base = pathlib.Path("/")
        else:
            self.base = pathlib.Path(tmp_root)
            self.base.mkdir(parents=True, exist_ok=True)
        self.user = aioftp.User(base_path=self.base)
        self.server = aioftp.Server([self.user], path_io_factory=factory, wait_future_timeout=3)

    async def start(self):
        await self.server.start("127.0.0.1", 0)
        self.port = self.server.server_port

    def reset(self, tree):
        if self.kind == "memory":
            self.server.path_io_factory.state = new_mem_state(tree)
        else:
            reset_fs(self.base, tree)

    def snapshot(self):
        if self.kind == "memory":
            return snapshot_mem(self.server.path_io_factory.state)
        return snapshot_fs(self.base)

    async def run(self, tree, cmds):
        """fresh tree, fresh session; -> [(observation, tree after)] per command"""
        self.reset(tree)
        cl = RawClient("127.0.0.1", self.port)
        out = []
        try:
            # the greeting and the login run on the real clock like every step: an outcome other than 220 / 230 inside the
            # limit is an observation of step 0 (the caller repeats such a session once with generous limits)
            try:
                code, _ = await cl.connect()
                if code == "220":
                    code, _ = await cl.cmd("USER anonymous")
                    code = None if code == "230" else "CONN:login-" + code
                else:
                    code = "CONN:greeting-" + code
            except asyncio.TimeoutError:
                code = "TIMEOUT"
            except (OSError, asyncio.IncompleteReadError) as e:
                code = "CONN:" + type(e).__name__
            if code is not None:
                return [([code], self.snapshot())]
            for c in cmds:
                try:
                    obs = await ftp_step(cl, c)
                except asyncio.TimeoutError:
                    obs = ["TIMEOUT"]
                except (ConnectionError, asyncio.IncompleteReadError) as e:
                    obs = ["CONN:" + type(e).__name__]
                out.append((obs, self.snapshot()))
                if obs and isinstance(obs[0], str) and (obs[0] in ("TIMEOUT", "EOF") or obs[0].startswith("CONN")):
                    break
            try:
                cl.w.write(b"QUIT\r\n")
                await asyncio.wait_for(cl.reply(), 2)
            except Exception:
                pass
        finally:
            cl.close()
        return out

    async def close(self):
        await self.server.close()
        if self.kind != "memory":
            shutil.rmtree(self.base, ignore_errors=True)


def obs_json(o):
    if isinstance(o, bytes):
        return "hex:" + o.hex()
    if isinstance(o, (list, tuple)):
        return [obs_json(x) for x in o]
    return o


def reply_class(obs):
    """the property speaks about reply *classes*: first digit of every reply code in the observation"""
    out = []
    for x in obs:
        if isinstance(x, str) and len(x) == 3 and x.isdigit():
            out.append(x[0])
        else:
            out.append(x)
    return out
