"""Real aioftp.Server + aioftp.Client over loopback TCP (127.0.0.1) with the in-memory backend,
for the wire-level halves of C04 / C08 (like /repo/tests/conftest.py: pair_factory)."""
import asyncio
import io

import aioftp
from aioftp.pathio import Node


def mem_state(tree):
    """tree: nested dict {name: dict | bytes} -> MemoryPathIO state (list with the root Node)"""

    def build(name, v):
        if isinstance(v, dict):
            return Node("dir", name, content=[build(k, x) for k, x in v.items()])
        return Node("file", name, content=io.BytesIO(v))

    return [build("/", tree)]


def snapshot(state):
    """MemoryPathIO state -> nested dict {name: dict | bytes} (order-insensitive comparison)"""

    def walk(node):
        if node.type == "dir":
            out = {}
            for c in node.content:
                # duplicate names would be a backend bug; keep them visible
                key = c.name if c.name not in out else (c.name, len(out))
                out[key] = walk(c)
            return out
        return bytes(node.content.getbuffer())

    if state is None:
        return {}
    return walk(state[0])


class Pair:
    """async with Pair(users, tree) as p: p.client, p.server, p.tree()"""

    def __init__(self, users=None, tree=None, timeout=20, **server_kw):
        self.server = aioftp.Server(users, path_io_factory=aioftp.MemoryPathIO, **server_kw)
        if tree is not None:
            self.server.path_io_factory.state = mem_state(tree)
        self.client = aioftp.Client(path_io_factory=aioftp.MemoryPathIO, socket_timeout=timeout)
        self.login = ("anonymous", "anon@")

    async def __aenter__(self):
        await self.server.start("127.0.0.1", 0)
        await self.client.connect(self.server.server_host, self.server.server_port)
        await self.client.login(*self.login)
        return self

    async def __aexit__(self, *exc):
        try:
            await asyncio.wait_for(self.client.quit(), 5)
        except Exception:
            pass
        self.client.close()
        await self.server.close()

    def tree(self):
        return snapshot(self.server.path_io_factory.state)

    async def raw(self, line):
        """send one command line, accept whatever single reply comes back: (code, info lines)"""
        code, info = await self.client.command(line, "xxx")
        return str(code), list(info)


def run(coro, timeout=300):
    loop = asyncio.new_event_loop()
    try:
        asyncio.set_event_loop(loop)
        return loop.run_until_complete(asyncio.wait_for(coro, timeout))
    finally:
        try:
            pending = [t for t in asyncio.all_tasks(loop) if not t.done()]
            for t in pending:
                t.cancel()
            if pending:
                loop.run_until_complete(asyncio.gather(*pending, return_exceptions=True))
        finally:
            loop.close()
