(* Appended to every extracted model: reads "<fn> <sx>" per line, prints one sx per line.
   Glue only: integer <-> binary Z conversion and s-expression parsing/printing. *)
let rec pos_of_int n =
  if n = 1 then XH
  else if n land 1 = 0 then XO (pos_of_int (n lsr 1))
  else XI (pos_of_int (n lsr 1))
let z_of_int n =
  if n = 0 then Z0 else if n > 0 then Zpos (pos_of_int n) else Zneg (pos_of_int (-n))
let rec int_of_pos p =
  let r = match p with
    | XH -> 1
    | XO q -> 2 * int_of_pos q
    | XI q -> 2 * int_of_pos q + 1 in
  if r <= 0 then failwith "driver: integer overflow" else r
let int_of_z = function Z0 -> 0 | Zpos p -> int_of_pos p | Zneg p -> - (int_of_pos p)

let tokens line =
  List.filter (fun s -> s <> "") (String.split_on_char ' ' line)

let rec parse_sx toks =
  match toks with
  | "(" :: rest ->
      let rec items acc ts =
        match ts with
        | ")" :: r -> (L (List.rev acc), r)
        | [] -> failwith "driver: unbalanced"
        | _ -> let (x, r) = parse_sx ts in items (x :: acc) r in
      items [] rest
  | t :: rest -> (I (z_of_int (int_of_string t)), rest)
  | [] -> failwith "driver: empty"

let rec print_sx buf s =
  match s with
  | I z -> Buffer.add_string buf (string_of_int (int_of_z z))
  | L l ->
      Buffer.add_string buf "(";
      List.iter (fun x -> Buffer.add_char buf ' '; print_sx buf x) l;
      Buffer.add_string buf " )"

let () =
  let buf = Buffer.create 65536 in
  (try
     while true do
       let line = input_line stdin in
       match tokens line with
       | [] -> ()
       | fn :: rest ->
           let (a, _) = parse_sx rest in
           let r = (try run_main (z_of_int (int_of_string fn)) a
                    with Stack_overflow -> L [I (z_of_int (-1)); I (z_of_int 98)]) in
           Buffer.clear buf;
           print_sx buf r;
           print_string (Buffer.contents buf);
           print_newline ()
     done
   with End_of_file -> ())
