"""Python side of coq/Lib/Sx.v: s-expressions of integers, one per line."""


def enc(x):
    """Python value -> sx text.  int/bool -> integer; str -> list of code points;
    bytes -> list of byte values; list/tuple -> list; None -> empty list."""
    out = []
    _enc(x, out)
    return " ".join(out)


def _enc(x, out):
    if x is True:
        out.append("1")
    elif x is False:
        out.append("0")
    elif isinstance(x, int):
        out.append(str(x))
    elif isinstance(x, str):
        out.append("(")
        out.extend(str(ord(c)) for c in x)
        out.append(")")
    elif isinstance(x, (bytes, bytearray)):
        out.append("(")
        out.extend(str(b) for b in x)
        out.append(")")
    elif x is None:
        out.append("(")
        out.append(")")
    elif isinstance(x, (list, tuple)):
        out.append("(")
        for y in x:
            _enc(y, out)
        out.append(")")
    else:
        raise TypeError(f"cannot encode {type(x)}")


def dec(line):
    """sx text -> nested Python lists of ints."""
    toks = line.split()
    pos = 0
    stack = [[]]
    for t in toks:
        if t == "(":
            stack.append([])
        elif t == ")":
            l = stack.pop()
            stack[-1].append(l)
        else:
            stack[-1].append(int(t))
    assert len(stack) == 1 and len(stack[0]) == 1, line[:200]
    return stack[0][0]


def txt(l):
    """decoded list of code points -> str"""
    return "".join(map(chr, l))


def txts(l):
    return [txt(x) for x in l]


def to_coq(x):
    """Python value -> Coq term of type sx (for cases.v / vm_compute cross-check)."""
    if x is True:
        return "I 1"
    if x is False:
        return "I 0"
    if isinstance(x, int):
        return f"I ({x})"
    if isinstance(x, str):
        return "L [" + "; ".join(f"I {ord(c)}" for c in x) + "]"
    if isinstance(x, (bytes, bytearray)):
        return "L [" + "; ".join(f"I {b}" for b in x) + "]"
    if x is None:
        return "L []"
    if isinstance(x, (list, tuple)):
        return "L [" + "; ".join(to_coq(y) for y in x) + "]"
    raise TypeError(type(x))


def nested_to_coq(x):
    """decoded nested-int-list -> Coq sx term"""
    if isinstance(x, int):
        return f"I ({x})"
    return "L [" + "; ".join(nested_to_coq(y) for y in x) + "]"
