#!/bin/bash
# tools/seedtest.sh <patch.diff> <Cxx> [tier]  — apply a seeded change to /repo, run the check, undo it.
set -u
patch="$1"; id="$2"; tier="${3:-quick}"
git -C /repo diff --quiet || { echo "/repo has uncommitted changes; refusing"; exit 2; }
git -C /repo apply "$patch" || { echo "patch does not apply"; exit 2; }
( cd /verif && bin/check "$id" "$tier" 2>&1 | grep -v "^Exception in callback\|^handle:" | tail -12 )
rc=${PIPESTATUS[0]}
git -C /repo checkout -- .
git -C /repo status --short | head -3
exit 0
