"""Regenerate MANIFEST.json from harness/props/*.py metadata (LEVEL_TEXT, LEVEL_NOTE, TECHNIQUE, DESIGN_REF)."""
import importlib
import json
import os
import sys
from pathlib import Path

V = Path(__file__).resolve().parent.parent
sys.path.insert(0, str(V))
sys.path.insert(0, "/repo/src")
ALL = [f"C{i:02d}" for i in range(1, 21)]
checks, na = [], []
for pid in ALL:
    f = V / "harness" / "props" / f"{pid.lower()}.py"
    if not f.exists():
        na.append({"property_id": pid, "reason": "not built yet in this development (model and theorems planned in DESIGN.md section 8); no check is registered, so nothing is claimed"})
        continue
    m = importlib.import_module(f"harness.props.{pid.lower()}")
    checks.append(
        {
            "property_id": pid,
            "quick_cmd": f"bin/check {pid} quick",
            "thorough_cmd": f"bin/check {pid} thorough",
            "evidence_file": f"/verif/evidence/{pid}.json",
            "replay_cmd_template": f"bin/check {pid} --replay {{path}}",
            "engine": "coq-proof+correspondence",
            "level_claimed": {
                "category": "proof",
                "text": m.LEVEL_TEXT,
                "design_ref": getattr(m, "DESIGN_REF", f"DESIGN.md section 8 {pid}"),
            },
            "level_note": m.LEVEL_NOTE,
            "technique": m.TECHNIQUE,
        }
    )
man = {
    "version": 1,
    "setup_cmd": "bin/setup",
    "hooks": {
        "guard": "AIOFTP_VERIF",
        "enable": "no hook inside /repo is needed: checks import aioftp from /repo/src (PYTHONPATH) and patch asyncio.start_server / aioftp.client.open_connection from the harness; AIOFTP_VERIF=1 is exported by bin/check for uniformity",
        "baseline_off_cmd": "cd /repo && /venv/bin/python -m pytest -ra -q -p no:cacheprovider --timeout=900 --continue-on-collection-errors",
        "source_commits": [],
        "add_only": True,
    },
    "engines": [
        {
            "name": "coq-proof+correspondence",
            "path": "bin/check",
            "serves_properties": [c["property_id"] for c in checks],
            "kind_free_text": "Coq 8.16.1 theorems about executable Gallina models (coq/Model, coq/Proofs, coq/Props), tied to /repo on every run by (a) tools/py2v regenerating coq/Gen/*.v from the source AST and re-checking closed obligations, (b) a correspondence check running the extracted OCaml model and the real aioftp on the same inputs",
        }
    ],
    "checks": checks,
    "not_applicable": na,
    "notes": "Every check: regenerates coq/Gen from /repo's working tree, rebuilds the Coq cone of coq/Props/<id>.v (full .vo), runs the correspondence harness against /repo/src, replays known findings (known_findings.json), writes evidence/<id>.json. See DESIGN.md.",
}
(V / "MANIFEST.json").write_text(json.dumps(man, indent=1) + "\n")
print(f"{len(checks)} checks, {len(na)} not_applicable")
