#!/bin/bash
# tools/merge_branch.sh <name> : merge wt-<name> into main resolving the expected conflicts
# (evidence of other properties -> ours; known_findings.json -> union; py2v/__main__.py -> ours)
cd /verif
git merge --no-edit "wt-$1" >/tmp/merge.log 2>&1
for f in $(git diff --name-only --diff-filter=U); do
  case "$f" in
    evidence/*) git checkout --ours -- "$f"; git add "$f";;
    known_findings.json) python3 tools/merge_kf.py && git add "$f";;
    tools/py2v/__main__.py) git checkout --ours -- "$f"; git add "$f";;
    *) echo "UNRESOLVED $f";;
  esac
done
if [ -z "$(git diff --name-only --diff-filter=U)" ]; then git commit -q --no-edit 2>/dev/null; echo "merged $1: $(git log --oneline -1)"; else echo "conflicts remain"; fi
