#!/usr/bin/env python3
"""tools/checkevidence.py: every committed evidence file must be a clean record of a run on the unchanged tree
(schema-valid, discharged == obligations, no broken obligation, no disagreement, no violation) and MANIFEST must validate."""
import glob, json, sys
bad = 0
try:
    import jsonschema
    sch = json.load(open("/root/.vp/EVIDENCE.schema.json"))
except Exception:
    jsonschema = None
man = json.load(open("/verif/MANIFEST.json"))
ids = [c["property_id"] for c in man["checks"]]
for pid in ids:
    f = f"/verif/evidence/{pid}.json"
    try:
        e = json.load(open(f))
    except Exception as ex:
        print(pid, "MISSING/INVALID JSON", ex); bad += 1; continue
    c = e["coverage"]
    probs = []
    if jsonschema:
        try: jsonschema.validate(e, sch)
        except Exception as ex: probs.append("schema: " + str(ex)[:120])
    if c["discharged"] != c["obligations"]: probs.append(f"discharged {c['discharged']} != obligations {c['obligations']}")
    if c.get("broken_obligations"): probs.append(f"{len(c['broken_obligations'])} broken obligations")
    if c.get("disagreements"): probs.append(f"{c['disagreements']} disagreements")
    if e.get("violations"): probs.append(f"{e['violations']} violations")
    if any("Closed under the global context" not in a for a in c.get("print_assumptions", [])): probs.append("axioms reported")
    if probs: bad += 1
    print(pid, e["tier"], "OK" if not probs else "PROBLEM: " + "; ".join(probs))
if jsonschema:
    jsonschema.validate(man, json.load(open("/root/.vp/MANIFEST.schema.json")))
    print("MANIFEST ok;", len(ids), "checks;", [x["property_id"] for x in man.get("not_applicable", [])])
sys.exit(1 if bad else 0)
