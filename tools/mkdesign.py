#!/usr/bin/env python3
"""tools/mkseedtable.py: regenerate the 'seeded changes' table of DESIGN.md (between the GENERATED markers)
from seeded/*/meta.json (written by tools/verify_seed.py)."""
import glob, json, re, os
V = os.path.dirname(os.path.dirname(os.path.abspath(__file__)))
rows = []
for f in sorted(glob.glob(f"{V}/seeded/*/meta.json")):
    d = os.path.basename(os.path.dirname(f))
    m = json.load(open(f))
    n = m.get("change")
    title = ""
    for l in m.get("breaker_notes", "").splitlines():
        mm = re.match(r"#+\s*[Cc]hange\s*%s\b\s*[-—:–]*\s*(.*)" % n, l)
        if mm:
            title = mm.group(1).strip()
            break
    title = m.get("title", title) or "(see meta.json)"
    chk = m.get("check", {})
    tier = next((t for t in ("quick", "thorough") if chk.get(t, {}).get("violations")), None)
    if tier is None:
        res = ("**no verdict** (check did not terminate in time)" if chk.get("quick", {}).get("wall_s") == -1 else "**missed** (quick" + (" and thorough" if "thorough" in chk else "") + ")")
        key = ""
    else:
        v = chk[tier]["violations"][0]
        res = f"caught ({tier}, " + ("no-failing-input-found" if "no-failing-input-found" in v else "concrete failing input") + ")"
        mm = re.search(r'\\"key\\": \\"([^"\\]+)', json.dumps(chk[tier].get("replay_excerpt", "")))
        key = mm.group(1) if mm else ""
    after = m.get("after_strengthening", "")
    rows.append((d, title.replace("|", "/")[:150], res, key, after))
out = ["| seed | change (breaker's title) | first verdict of the check at the time | replay key | after strengthening |", "|---|---|---|---|---|"]
out += [f"| {a} | {b} | {c} | `{d}` | {e} |" if d else f"| {a} | {b} | {c} | | {e} |" for a, b, c, d, e in rows]
SECTIONS = {"seeds": "\n".join(out) + "\n"}

# ---- per-property status from harness/props metadata
import importlib, sys
sys.path.insert(0, V)
sys.path.insert(0, "/repo/src")
st = []
for i in range(1, 21):
    pid = f"C{i:02d}"
    if not os.path.exists(f"{V}/harness/props/{pid.lower()}.py"):
        st.append(f"**{pid}** — not built (listed under not_applicable in MANIFEST.json).\n")
        continue
    m = importlib.import_module(f"harness.props.{pid.lower()}")
    n_thm = 0
    pv = f"{V}/coq/Props/{pid}.v"
    if os.path.exists(pv):
        n_thm = len(re.findall(r"^\s*(?:Theorem|Lemma|Corollary)\s", re.sub(r"\(\*.*?\*\)", "", open(pv).read(), flags=re.S), re.M))
    st.append(f"**{pid}** ({n_thm} theorems in `coq/Props/{pid}.v`; details `docs/notes/{pid}.md`)\n\n*Technique.* {m.TECHNIQUE}\n\n*Claimed.* {m.LEVEL_TEXT}\n\n*Trusted / modelled, not verified.* {m.LEVEL_NOTE}\n")
SECTIONS["status"] = "\n".join(st)

# ---- findings
kf = json.load(open(f"{V}/known_findings.json"))
fo = ["| id | property | replay keys | what fails (on the unrepaired code) |", "|---|---|---|---|"]
for f_ in kf["findings"]:
    fo.append(f"| {f_['id']} | {f_['property']} | {', '.join('`'+k+'`' for k in f_.get('keys', []))} | {f_['what'].replace('|', '/')} |")
fo += ["", "Repaired in /repo (`fix:` commits; a fixed entry suppresses nothing — the check reports the violation again if it returns):", "", "| id | property | /repo commit | what failed |", "|---|---|---|---|"]
for f_ in kf.get("fixed", []):
    fo.append(f"| {f_['id']} | {f_['property']} | {f_.get('commit','')} | {f_['what'].replace('|', '/')} |")
SECTIONS["findings"] = "\n".join(fo) + "\n"

# ---- false alarms, verbatim from the builders' notes
fa = []
for f in sorted(glob.glob(f"{V}/docs/notes/C*.md")):
    txt = open(f).read()
    mm = re.search(r"^##+ [^\n]*[Ff]alse alarm[^\n]*\n(.*?)(?=^##? |\Z)", txt, re.S | re.M)
    if mm and mm.group(1).strip():
        fa.append(f"**{os.path.basename(f)[:-3]}**\n\n{mm.group(1).strip()}\n")
SECTIONS["falsealarms"] = "\n".join(fa)

p = f"{V}/DESIGN.md"
s = open(p).read()
for name, text in SECTIONS.items():
    B, E = f"<!-- BEGIN GENERATED {name} -->\n", f"<!-- END GENERATED {name} -->\n"
    if B in s:
        s = s[: s.index(B) + len(B)] + text + s[s.index(E):]
        print(f"DESIGN.md: section {name} regenerated ({len(text)} chars)")
    else:
        print(f"(no marker for {name})")
open(p, "w").write(s)
