"""Gen/Xfer.v: structural facts about the data path (C01): the transfer workers' loop bodies,
the open-mode default / APPE's delegation argument, rest(), the dispatcher's offset reset,
AsyncStreamIterator, the read/write pass-through of the stream classes, and the client's
get_stream / finish / upload / download shapes.

Pure ast walk.  Statements are printed role-normalised (see coq/Lib/XferFacts.v); anything whose
place in the source cannot be found raises Unclassified (fail closed -> translator_ok := false)."""
import ast
from pathlib import Path

from . import emit
from .gen_dispatch import S, Unclassified, slist


class Renamer(ast.NodeTransformer):
    def __init__(self, roles):
        self.roles = roles

    def visit_Name(self, node):
        if node.id in self.roles:
            return ast.copy_location(ast.Name(id=self.roles[node.id], ctx=node.ctx), node)
        return node

    def visit_arg(self, node):
        if node.arg in self.roles:
            node.arg = self.roles[node.arg]
        return node

    def visit_ExceptHandler(self, node):
        self.generic_visit(node)
        if node.name in self.roles:
            node.name = self.roles[node.name]
        return node


def norm(node, roles=None):
    import copy

    n = copy.deepcopy(node)
    if roles:
        n = Renamer(roles).visit(n)
        ast.fix_missing_locations(n)
    return " ".join(ast.unparse(n).split())


def strip_doc(body):
    if body and isinstance(body[0], ast.Expr) and isinstance(body[0].value, ast.Constant) and isinstance(body[0].value.value, str):
        return body[1:]
    return body


def stmts(body, roles=None):
    return [norm(s, roles) for s in strip_doc(body)]


# ---------------------------------------------------------------------------------------------
# spelling-independent statement text (round 6)
#
# The statement-text facts are compared with reference tables in coq/Model/TransferBytes.v.  Two
# things a maintainer may change without changing what the code does must not show up in them:
#  * the spelling of LOCAL variables: they are alpha-renamed L0, L1, .. in order of first
#    occurrence in the printed statements.  Parameters, free variables (names of an enclosing
#    function, globals, attributes, keyword names) are kept: they are the function's interface.
#    Where the WHOLE body of a function is printed the binding of every local is part of the
#    text, so this is plain alpha-equivalence; where only a slice is printed (the dispatcher) the
#    locals the property depends on are first resolved by WHAT THEY ARE BOUND TO (roles).
#  * early exit vs. else: `if T: A else: B` with A ending in return/raise/continue/break is
#    printed `if T: A` ; B, and `if not X: A` ; B (A and B both ending in such a statement, B up
#    to the end of its block) is printed `if X: B` ; A.  Both are equivalences of Python
#    programs (the only paths out of A and B are their final statements).
TERMINAL = (ast.Return, ast.Raise, ast.Continue, ast.Break)


def _ends_terminal(block):
    return bool(block) and isinstance(block[-1], TERMINAL)


def canon_block(block):
    out = list(block)
    i = 0
    while i < len(out):
        st = out[i]
        if isinstance(st, ast.If):
            if st.orelse and _ends_terminal(st.body):
                out[i + 1 : i + 1] = st.orelse
                st.orelse = []
            if (
                not st.orelse
                and isinstance(st.test, ast.UnaryOp)
                and isinstance(st.test.op, ast.Not)
                and _ends_terminal(st.body)
                and _ends_terminal(out[i + 1 :])
            ):
                rest, early = out[i + 1 :], st.body
                st.test, st.body = st.test.operand, rest
                out[i + 1 :] = early
        i += 1
    for st in out:
        if isinstance(st, (ast.FunctionDef, ast.AsyncFunctionDef, ast.ClassDef)):
            continue
        for field in ("body", "orelse", "finalbody"):
            sub = getattr(st, field, None)
            if isinstance(sub, list) and sub and isinstance(sub[0], ast.stmt):
                setattr(st, field, canon_block(sub))
        for h in getattr(st, "handlers", []) or []:
            h.body = canon_block(h.body)
    return out


def fn_params(fn):
    a = fn.args
    names = {x.arg for x in a.posonlyargs + a.args + a.kwonlyargs}
    for x in (a.vararg, a.kwarg):
        if x is not None:
            names.add(x.arg)
    return names


def fn_locals(fn):
    """names bound inside fn (assignment / for / with / except targets, parameters of nested lambdas and
    defs), minus fn's own parameters and anything declared global / nonlocal"""
    a = fn.args
    own = {id(x) for x in a.posonlyargs + a.args + a.kwonlyargs + [y for y in (a.vararg, a.kwarg) if y is not None]}
    bound, excluded = set(), set()
    for n in ast.walk(fn):
        if isinstance(n, ast.Name) and isinstance(n.ctx, (ast.Store, ast.Del)):
            bound.add(n.id)
        elif isinstance(n, ast.arg) and id(n) not in own:
            bound.add(n.arg)
        elif isinstance(n, ast.ExceptHandler) and n.name:
            bound.add(n.name)
        elif isinstance(n, (ast.Global, ast.Nonlocal)):
            excluded.update(n.names)
    return bound - fn_params(fn) - excluded


def alpha_map(fn, nodes, keep=()):
    """local name -> L<k>, k = rank of its first occurrence (source order) in `nodes`"""
    local = fn_locals(fn) - set(keep)
    out = {}

    def walk(n):  # depth first, field order = reading order of the PRINTED (canonical) statements
        name = n.id if isinstance(n, ast.Name) else n.arg if isinstance(n, ast.arg) else n.name if isinstance(n, ast.ExceptHandler) else None
        if name in local and name not in out:
            out[name] = f"L{len(out)}"
        for c in ast.iter_child_nodes(n):
            walk(c)

    for root in nodes:
        walk(root)
    return out


def fn_stmts(fn, roles=None):
    """the whole body of fn, canonical shapes, locals alpha-renamed"""
    import copy

    fn = copy.deepcopy(fn)
    body = canon_block(strip_doc(fn.body))
    m = alpha_map(fn, body, keep=(roles or {}).keys())
    m.update(roles or {})
    return [norm(s, m) for s in body]


def find_class(tree, name):
    for n in tree.body:
        if isinstance(n, ast.ClassDef) and n.name == name:
            return n
    raise Unclassified(f"class {name} not found")


def find_method(cls, name):
    for n in cls.body:
        if isinstance(n, (ast.FunctionDef, ast.AsyncFunctionDef)) and n.name == name:
            return n
    raise Unclassified(f"method {cls.name}.{name} not found")


def nested_fn(fn, name):
    for n in fn.body:
        if isinstance(n, (ast.FunctionDef, ast.AsyncFunctionDef)) and n.name == name:
            return n
    raise Unclassified(f"nested function {name} not found in {fn.name}")


def worker_shape(fn):
    """(open expression, [normalised statements inside the outermost async with])"""
    roles = {"connection": "conn"}
    open_expr = None
    for st in fn.body:
        if isinstance(st, ast.Assign) and len(st.targets) == 1 and isinstance(st.targets[0], ast.Name):
            v = st.value
            if isinstance(v, ast.Attribute) and isinstance(v.value, ast.Name) and v.value.id == "connection" and v.attr == "data_connection":
                roles[st.targets[0].id] = "STREAM"
            elif (
                isinstance(v, ast.Call)
                and isinstance(v.func, ast.Attribute)
                and v.func.attr == "open"
                and isinstance(v.func.value, ast.Attribute)
                and v.func.value.attr == "path_io"
            ):
                if open_expr is not None:
                    raise Unclassified(f"two open() calls in {fn.name}")
                roles[st.targets[0].id] = "FILE"
                open_expr = v
    if open_expr is None or "STREAM" not in roles.values():
        raise Unclassified(f"{fn.name}: data connection / open() binding not found")
    withs = [st for st in fn.body if isinstance(st, ast.AsyncWith)]
    if len(withs) != 1:
        raise Unclassified(f"{fn.name}: expected exactly one top-level async with")
    body = withs[0].body
    out = []
    for st in body:
        if isinstance(st, ast.AsyncFor) and isinstance(st.target, ast.Name):
            r = dict(roles)
            r[st.target.id] = "ITEM"
            out.append(norm(st, r))
        else:
            out.append(norm(st, roles))
    ctx_items = [norm(it.context_expr, roles) for it in withs[0].items]
    return norm(open_expr, roles), out, ctx_items, xprog(body, roles)


# the offset a transfer worker reads: the one the dispatcher handed to its command (F14 repair).
# A worker that reads conn.restart_offset itself (the pre-F14 source) is NOT classified: its
# statements come out as XOther / XSOther and the program obligations fail.
OFFSET_EXPR = "conn.transfer_offset"


def _role_call(node, method):
    """`await <Name>.<method>(args)` as an expression statement -> (role name, args) or None"""
    if not (isinstance(node, ast.Expr) and isinstance(node.value, ast.Await)):
        return None
    c = node.value.value
    if not (isinstance(c, ast.Call) and isinstance(c.func, ast.Attribute) and c.func.attr == method
            and isinstance(c.func.value, ast.Name) and not c.keywords):
        return None
    return c.func.value.id, c.args


def xsimple(st, roles, item):
    """one simple statement -> Coq term of type xsimple"""
    r = _role_call(st, "seek")
    if r and r[0] in roles and len(r[1]) == 1 and norm(r[1][0], roles) == OFFSET_EXPR:
        return f"XSeek {S(roles[r[0]])}"
    r = _role_call(st, "write")
    if r and r[0] in roles and item is not None and len(r[1]) == 1 and isinstance(r[1][0], ast.Name) and r[1][0].id == item:
        return f"XWrite {S(roles[r[0]])}"
    rr = dict(roles)
    if item is not None:
        rr[item] = "ITEM"
    return f"XSOther {S(norm(st, rr))}"


def xprog(body, roles):
    """statement list -> Coq term of type list xstmt (fail closed: XOther carries the text)"""
    out = []
    for st in body:
        if isinstance(st, ast.If) and not st.orelse and norm(st.test, roles) == OFFSET_EXPR:
            out.append("XIfOffset [" + "; ".join(xsimple(x, roles, None) for x in st.body) + "]")
        elif (
            isinstance(st, ast.AsyncFor)
            and not st.orelse
            and isinstance(st.target, ast.Name)
            and isinstance(st.iter, ast.Call)
            and isinstance(st.iter.func, ast.Attribute)
            and st.iter.func.attr == "iter_by_block"
            and isinstance(st.iter.func.value, ast.Name)
            and st.iter.func.value.id in roles
            and len(st.iter.args) == 1
            and not st.iter.keywords
        ):
            src = roles[st.iter.func.value.id]
            out.append(
                f"XForBlocks {S(src)} {S(norm(st.iter.args[0], roles))} ["
                + "; ".join(xsimple(x, roles, st.target.id) for x in st.body)
                + "]"
            )
        elif isinstance(st, ast.Expr) and isinstance(st.value, ast.Await):
            out.append("XDo (" + xsimple(st, roles, None) + ")")
        else:
            out.append(f"XOther {S(norm(st, roles))}")
    return "[" + "; ".join(out) + "]"


def client_prog(fn, what, stream_method):
    """upload()/download() file branch: `async with self.path_io.open(P, mode=M) as F, self.<stream_method>(Q) as S: <body>`
    -> (M, program of <body>)"""
    for st in strip_doc(fn.body):
        if isinstance(st, ast.If):
            inner = [x for x in st.body if isinstance(x, ast.AsyncWith)]
            if len(inner) != 1:
                continue
            w = inner[0]
            roles, mode = {}, None
            for it in w.items:
                c = it.context_expr
                if not (isinstance(it.optional_vars, ast.Name) and isinstance(c, ast.Call) and isinstance(c.func, ast.Attribute)):
                    raise Unclassified(f"{what}: context item {norm(it.context_expr)}")
                if c.func.attr == "open" and norm(c.func.value) == "self.path_io":
                    roles[it.optional_vars.id] = "FILE"
                    for k in c.keywords:
                        if k.arg == "mode" and isinstance(k.value, ast.Constant):
                            mode = k.value.value
                    if len(c.args) == 2 and isinstance(c.args[1], ast.Constant):
                        mode = c.args[1].value
                elif c.func.attr == stream_method and norm(c.func.value) == "self":
                    roles[it.optional_vars.id] = "STREAM"
                else:
                    raise Unclassified(f"{what}: context item {norm(it.context_expr)}")
            if sorted(roles.values()) != ["FILE", "STREAM"] or not isinstance(mode, str):
                raise Unclassified(f"{what}: roles {roles} mode {mode}")
            return f"({S(mode)}, {xprog(w.body, roles)})"
    raise Unclassified(f"{what}: file branch with an async with not found")


def _assigns_attr(st, attr):
    return isinstance(st, ast.Assign) and any(isinstance(t, ast.Attribute) and t.attr == attr for t in st.targets)


def dispatcher_roles(fn):
    """the dispatcher's locals the offset hand-over depends on, resolved by WHAT THEY ARE BOUND TO:
    conn    := the local assigned `<..>Connection(...)`
    HANDLER := the local assigned `self.commands_mapping.get(<CMD>)`, CMD a plain name
    REST    := the other name of the two-name tuple assignment that binds CMD (`CMD, REST = <parsed command>`)
    exactly one binding of each, else Unclassified (fail closed)"""
    conn, handler, cmd = [], [], []
    for n in ast.walk(fn):
        if isinstance(n, ast.Assign) and len(n.targets) == 1 and isinstance(n.targets[0], ast.Name) and isinstance(n.value, ast.Call):
            f = n.value.func
            if norm(f).split(".")[-1] == "Connection":
                conn.append(n.targets[0].id)
            elif norm(f) == "self.commands_mapping.get" and len(n.value.args) == 1 and not n.value.keywords and isinstance(n.value.args[0], ast.Name):
                handler.append(n.targets[0].id)
                cmd.append(n.value.args[0].id)
    if len(conn) != 1 or len(handler) != 1:
        raise Unclassified(f"dispatcher: connection / handler binding not unique: {conn} {handler}")
    rest = []
    for n in ast.walk(fn):
        if isinstance(n, ast.Assign) and len(n.targets) == 1 and isinstance(n.targets[0], ast.Tuple):
            names = [e.id if isinstance(e, ast.Name) else None for e in n.targets[0].elts]
            if len(names) == 2 and names[0] == cmd[0] and names[1] is not None:
                rest.append(names[1])
    if len(set(rest)) != 1:
        raise Unclassified(f"dispatcher: `{cmd[0]}, <rest> = ...` binding not unique: {rest}")
    roles = {conn[0]: "conn", handler[0]: "HANDLER", cmd[0]: "CMD", rest[0]: "REST"}
    if len(roles) != 4:
        raise Unclassified(f"dispatcher: roles collide: {roles}")
    return roles, conn[0]


def dispatcher_reset(fn, roles):
    """the statement list of the dispatcher in which connection.restart_offset is cleared: normalised
    statements of that block up to and including the LAST statement that touches restart_offset /
    transfer_offset.  Both the repaired shape (hand-over `if cmd in (..): transfer_offset = restart_offset`
    followed by an unconditional clear) and the pre-F14 shape (`if cmd not in (..): restart_offset = 0`)
    are printed; only the repaired one equals the expected list of the model."""

    def touches(st):
        return any(_assigns_attr(n, "restart_offset") or _assigns_attr(n, "transfer_offset") for n in ast.walk(st))

    def simple_if(st):
        return isinstance(st, ast.If) and not any(
            isinstance(x, (ast.If, ast.Try, ast.While, ast.For, ast.AsyncFor, ast.With, ast.AsyncWith)) for x in st.body + st.orelse
        ) and touches(st)

    found = []
    inner = set()  # simple guards already printed as one statement of their enclosing block
    for n in ast.walk(fn):
        if id(n) in inner:
            continue
        for field in ("body", "orelse"):
            block = getattr(n, field, None)
            if not isinstance(block, list):
                continue
            idx = [i for i, st in enumerate(block) if _assigns_attr(st, "restart_offset") or _assigns_attr(st, "transfer_offset") or simple_if(st)]
            for i in idx:
                if isinstance(block[i], ast.If):
                    inner.add(id(block[i]))
            if idx:
                sl = block[: idx[-1] + 1]
                m = alpha_map(fn, sl, keep=roles.keys())  # the remaining locals (e.g. the task set): by first occurrence
                m.update(roles)
                found.append([norm(x, m) for x in sl])
    if len(found) != 1:
        raise Unclassified(f"dispatcher: expected exactly one block that assigns restart_offset / transfer_offset, found {len(found)}")
    return found[0]


OBSERVERS = ("build_mlsx_string", "_build_mlsx_facts_from_stats", "build_list_string", "build_list_mtime", "mlst", "mlsd", "list")


def observer_state(srv):
    """sorted names of the attributes of `self` that the builders of MLST / MLSD / LIST answers touch"""
    out = set()
    for name in OBSERVERS:
        fn = find_method(srv, name)
        for n in ast.walk(fn):
            if isinstance(n, ast.Attribute) and isinstance(n.value, ast.Name) and n.value.id == "self":
                out.add(n.attr)
    return sorted(out)


def worker_fs_calls(fn):
    """every call on connection.path_io inside a transfer worker, normalised, in source order"""
    out = []
    for n in ast.walk(fn):
        if isinstance(n, ast.Call) and isinstance(n.func, ast.Attribute) and norm(n.func.value, {"connection": "conn"}) == "conn.path_io":
            out.append((n.lineno, n.col_offset, norm(n, {"connection": "conn"})))
    return [t for _, _, t in sorted(out)]


def connection_offset_init(fn):
    """the restart_offset= / transfer_offset= keyword arguments of the Connection(...) call in the dispatcher"""
    out = []
    for n in ast.walk(fn):
        if isinstance(n, ast.Call) and norm(n.func).endswith("Connection"):
            for k in n.keywords:
                if k.arg in ("restart_offset", "transfer_offset"):
                    out.append(f"{k.arg}={norm(k.value)}")
    if not out:
        raise Unclassified("dispatcher: Connection(...) with restart_offset= not found")
    return out


def offset_assignments(fn):
    """rest(): every assignment to connection.restart_offset with the test that guards it"""
    out = []

    def walk(block, guard):
        for st in block:
            if isinstance(st, ast.If):
                walk(st.body, guard + [norm(st.test)])
                walk(st.orelse, guard + ["not (" + norm(st.test) + ")"])
            elif isinstance(st, ast.Assign) and any(isinstance(t, ast.Attribute) and t.attr == "restart_offset" for t in st.targets):
                out.append(" and ".join(guard or ["always"]) + " => " + norm(st, {"connection": "conn"}))
            elif isinstance(st, (ast.For, ast.While, ast.AsyncFor, ast.With, ast.AsyncWith, ast.Try)):
                raise Unclassified(f"{fn.name}: compound statement {type(st).__name__}")

    walk(strip_doc(fn.body), [])
    if not out:
        raise Unclassified(f"{fn.name}: no assignment to restart_offset")
    return out


def awaiting_prefix(fn):
    """get_stream: the statements up to the last one that awaits (the commands sent, in order)"""
    import copy

    fn = copy.deepcopy(fn)
    b = canon_block(strip_doc(fn.body))
    last = max((i for i, st in enumerate(b) if any(isinstance(n, ast.Await) for n in ast.walk(st))), default=None)
    if last is None:
        raise Unclassified(f"{fn.name}: nothing awaited")
    m = alpha_map(fn, b[: last + 1])  # a prefix from the first statement on: every binding is in the text
    return [norm(st, m) for st in b[: last + 1]]


def generate(src_dir):
    src_dir = Path(src_dir)
    server = ast.parse((src_dir / "server.py").read_text())
    common = ast.parse((src_dir / "common.py").read_text())
    client = ast.parse((src_dir / "client.py").read_text())
    pathio = ast.parse((src_dir / "pathio.py").read_text())

    srv = find_class(server, "Server")
    stor = find_method(srv, "stor")
    retr = find_method(srv, "retr")
    appe = find_method(srv, "appe")
    rest = find_method(srv, "rest")
    disp = find_method(srv, "dispatcher")

    # stor(self, connection, rest, mode=<default>)
    names = [a.arg for a in stor.args.args]
    if "mode" not in names or len(stor.args.defaults) != 1 or names[-1] != "mode":
        raise Unclassified("stor: signature is not (self, connection, rest, mode=<const>)")
    d = stor.args.defaults[0]
    if not (isinstance(d, ast.Constant) and isinstance(d.value, str)):
        raise Unclassified("stor: mode default is not a string literal")
    stor_default = d.value

    # appe: return await self.stor(connection, rest, <mode>)
    body = strip_doc(appe.body)
    ok = (
        len(body) == 1
        and isinstance(body[0], ast.Return)
        and isinstance(body[0].value, ast.Await)
        and isinstance(body[0].value.value, ast.Call)
    )
    if not ok:
        raise Unclassified("appe: body is not a single `return await self.stor(...)`")
    call = body[0].value.value
    if not (isinstance(call.func, ast.Attribute) and call.func.attr == "stor"):
        raise Unclassified("appe: does not delegate to self.stor")
    mode_arg = None
    if len(call.args) == 3:
        mode_arg = call.args[2]
    for k in call.keywords:
        if k.arg == "mode":
            mode_arg = k.value
    if [norm(a) for a in call.args[:2]] != ["connection", "rest"]:
        raise Unclassified("appe: first arguments of self.stor are not (connection, rest)")
    if not (isinstance(mode_arg, ast.Constant) and isinstance(mode_arg.value, str)):
        raise Unclassified("appe: mode argument is not a string literal")
    appe_mode = mode_arg.value

    stor_open, stor_body, stor_ctx, stor_prog = worker_shape(nested_fn(stor, "stor_worker"))
    retr_open, retr_body, retr_ctx, retr_prog = worker_shape(nested_fn(retr, "retr_worker"))
    rest_body = offset_assignments(rest)
    disp_roles, disp_conn = dispatcher_roles(disp)
    reset = dispatcher_reset(disp, disp_roles)

    it = find_class(common, "AsyncStreamIterator")
    anext = fn_stmts(find_method(it, "__anext__"))
    tsio = find_class(common, "ThrottleStreamIO")
    sio = find_class(common, "StreamIO")
    block_size = None
    for n in common.body:
        if isinstance(n, ast.Assign) and isinstance(n.targets[0], ast.Name) and n.targets[0].id == "DEFAULT_BLOCK_SIZE":
            block_size = ast.literal_eval(n.value)
    if not isinstance(block_size, int):
        raise Unclassified("DEFAULT_BLOCK_SIZE is not an int literal")

    ctxcls = find_class(pathio, "AsyncPathIOContext")
    nursery = find_class(pathio, "PathIONursery")
    # where the backend object of a session comes from: self.path_io_factory = <callee>(...) in
    # __init__, connection.path_io = <callee>(...) in the dispatcher
    wiring = []
    for fn, target_base, target_attr in ((find_method(srv, "__init__"), "self", "path_io_factory"), (disp, disp_conn, "path_io")):
        for n in ast.walk(fn):
            if isinstance(n, ast.Assign) and any(
                isinstance(tg, ast.Attribute) and isinstance(tg.value, ast.Name) and tg.value.id == target_base and tg.attr == target_attr
                for tg in n.targets
            ):
                if not isinstance(n.value, ast.Call):
                    raise Unclassified(f"{fn.name}: {target_base}.{target_attr} is not assigned from a call")
                args = [norm(a) for a in n.value.args]
                shown = "connection" if fn is disp else target_base
                wiring.append(f"{shown}.{target_attr} = {norm(n.value.func)}({', '.join(args + (['**kw'] if n.value.keywords else []))})")
    if len(wiring) != 2:
        raise Unclassified(f"backend wiring: expected 2 assignments, found {wiring}")

    cl = find_class(client, "Client")
    dstream = find_class(client, "DataConnectionThrottleStreamIO")
    gpc = find_method(cl, "get_passive_connection")
    first_cmd = None
    for n in ast.walk(gpc):
        if isinstance(n, ast.Call) and isinstance(n.func, ast.Attribute) and n.func.attr == "command":
            first_cmd = norm(n)
            break
    # make sure it precedes the loop over the passive commands
    seen_cmd = False
    for st in strip_doc(gpc.body):
        has_cmd = any(isinstance(n, ast.Call) and isinstance(n.func, ast.Attribute) and n.func.attr == "command" for n in ast.walk(st))
        if isinstance(st, ast.For):
            if not seen_cmd:
                raise Unclassified("get_passive_connection: no command before the passive-command loop")
            break
        seen_cmd = seen_cmd or has_cmd
    if first_cmd is None:
        raise Unclassified("get_passive_connection: no command() call")

    verbs = []
    for name in ("upload_stream", "append_stream", "download_stream"):
        m = find_method(cl, name)
        b = strip_doc(m.body)
        if not (len(b) == 1 and isinstance(b[0], ast.Return) and isinstance(b[0].value, ast.Call) and norm(b[0].value.func) == "self.get_stream"):
            raise Unclassified(f"{name}: body is not `return self.get_stream(...)`")
        c = b[0].value
        args = [norm(a, {"destination": "PATH", "source": "PATH"}) for a in c.args] + [
            f"{k.arg}={norm(k.value)}" for k in c.keywords
        ]
        verbs.append((name, args))

    def file_branch(fn, what):
        for st in strip_doc(fn.body):
            if isinstance(st, ast.If):
                inner = [x for x in st.body if isinstance(x, ast.AsyncWith)]
                if len(inner) == 1:
                    # the targets of the `async with` / `async for` are bound inside the printed statement
                    bound_here = {n.id for n in ast.walk(inner[0]) if isinstance(n, ast.Name) and isinstance(n.ctx, ast.Store)}
                    m = {k: v for k, v in alpha_map(fn, [inner[0]]).items() if k in bound_here}
                    m = {k: f"L{i}" for i, k in enumerate(m)}
                    m.update({"source": "SRC", "destination": "DST"})
                    return [norm(inner[0], m)]
        raise Unclassified(f"{what}: file branch with an async with not found")

    out = [emit.HEADER.format(src=str(src_dir))]
    out.append("From Coq Require Import String List.\nImport ListNotations.\nFrom Verif Require Import Lib.XferFacts.\nOpen Scope string_scope.\n")
    out.append("Definition translator_ok : bool := true.\n")
    fields = [
        ("xf_stor_prog", stor_prog),
        ("xf_retr_prog", retr_prog),
        ("xf_upload_prog", client_prog(find_method(cl, "upload"), "upload", "upload_stream")),
        ("xf_download_prog", client_prog(find_method(cl, "download"), "download", "download_stream")),
        ("xf_stor_default_mode", S(stor_default)),
        ("xf_appe_mode", S(appe_mode)),
        ("xf_stor_body", slist(stor_body)),
        ("xf_retr_body", slist(retr_body)),
        ("xf_stor_ctx", slist(stor_ctx)),
        ("xf_retr_ctx", slist(retr_ctx)),
        ("xf_stor_open", S(stor_open)),
        ("xf_retr_open", S(retr_open)),
        ("xf_rest_body", slist(rest_body)),
        ("xf_reset_stmt", slist(reset)),
        ("xf_offset_init", slist(connection_offset_init(disp))),
        ("xf_observer_state", slist(observer_state(srv))),
        ("xf_file_ctx_aexit", slist(fn_stmts(find_method(ctxcls, "__aexit__")))),
        ("xf_worker_fs_calls", slist(worker_fs_calls(nested_fn(stor, "stor_worker")) + ["--"] + worker_fs_calls(nested_fn(retr, "retr_worker")))),
        ("xf_backend_wiring", slist(wiring)),
        ("xf_nursery_call", slist(fn_stmts(find_method(nursery, "__call__")))),
        ("xf_iter_anext", slist(anext)),
        ("xf_iter_by_block_stream", slist(fn_stmts(find_method(tsio, "iter_by_block")))),
        ("xf_throttle_read", slist(fn_stmts(find_method(tsio, "read")))),
        ("xf_throttle_write", slist(fn_stmts(find_method(tsio, "write")))),
        ("xf_stream_read", slist(fn_stmts(find_method(sio, "read")))),
        ("xf_stream_write", slist(fn_stmts(find_method(sio, "write")))),
        ("xf_default_block_size", emit.z(block_size) + "%Z"),
        ("xf_iter_by_block_file", slist(fn_stmts(find_method(ctxcls, "iter_by_block")))),
        ("xf_get_stream", slist(awaiting_prefix(find_method(cl, "get_stream")))),
        ("xf_passive_first_cmd", S(first_cmd)),
        ("xf_stream_verbs", "[" + "; ".join(f"({S(n)}, {slist(a)})" for n, a in verbs) + "]"),
        ("xf_finish", slist(fn_stmts(find_method(dstream, "finish")))),
        ("xf_aexit", slist(fn_stmts(find_method(dstream, "__aexit__")))),
        ("xf_upload_file", slist(file_branch(find_method(cl, "upload"), "upload"))),
        ("xf_download_file", slist(file_branch(find_method(cl, "download"), "download"))),
    ]
    out.append("Definition facts : xfer_facts :=\n  {| " + ";\n     ".join(f"{k} := {v}" for k, v in fields) + " |}.\n")
    return "\n".join(out)
