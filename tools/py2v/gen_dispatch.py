"""Gen/Dispatch.v: structural facts of server.py (command table, decorator stacks, handler
footprints, nested workers, the dispatcher's except ladder and finally block).

Pure ast walk, no execution of repo code.  Fail closed: any shape we cannot classify raises
Unclassified (turned into `translator_ok := false` by __main__)."""
import ast
from pathlib import Path

from . import emit


UNCLASSIFIED_NOTES = []


class Unclassified(Exception):
    pass


def S(s):
    return '"' + s.replace('"', '""') + '"'


def slist(xs):
    return "[" + "; ".join(S(x) for x in xs) + "]"


def blist(xs):
    return "[" + "; ".join(emit.boolean(x) for x in xs) + "]"


def src(node):
    return ast.unparse(node)


def is_attr(node, base, attr=None):
    """node is <base>.<attr> with base a Name"""
    return (
        isinstance(node, ast.Attribute)
        and isinstance(node.value, ast.Name)
        and node.value.id == base
        and (attr is None or node.attr == attr)
    )


def class_consts(cls):
    """class-level NAME = constant/tuple assignments"""
    out = {}
    for st in cls.body:
        if isinstance(st, ast.Assign) and len(st.targets) == 1 and isinstance(st.targets[0], ast.Name):
            try:
                out[st.targets[0].id] = ast.literal_eval(st.value)
            except Exception:
                pass
    return out


class Ctx:
    def __init__(self, tree):
        self.classes = {n.name: n for n in tree.body if isinstance(n, ast.ClassDef)}
        self.funcs = {n.name: n for n in tree.body if isinstance(n, (ast.FunctionDef, ast.AsyncFunctionDef))}
        self.cc = class_consts(self.classes["ConnectionConditions"])
        self.pc = class_consts(self.classes["PathConditions"])
        self.pp = class_consts(self.classes["PathPermissions"])
        self.server = self.classes["Server"]
        self.methods = {
            n.name: n for n in self.server.body if isinstance(n, (ast.FunctionDef, ast.AsyncFunctionDef))
        }


def deco_fact(cx, d):
    if isinstance(d, ast.Name) and d.id == "worker":
        return "DWorker"
    if isinstance(d, ast.Name) and d.id == "staticmethod":
        return 'DOther "staticmethod"'
    if isinstance(d, ast.Call) and isinstance(d.func, ast.Name):
        name = d.func.id
        if name == "ConnectionConditions":
            fields = []
            for a in d.args:
                if not is_attr(a, "ConnectionConditions") or a.attr not in cx.cc:
                    raise Unclassified(f"ConnectionConditions argument {src(a)}")
                fields.append(cx.cc[a.attr][0])
            wait, fail = False, "503"
            for k in d.keywords:
                if k.arg == "wait":
                    wait = ast.literal_eval(k.value)
                elif k.arg == "fail_code":
                    fail = ast.literal_eval(k.value)
                elif k.arg == "fail_info":
                    pass
                else:
                    raise Unclassified(f"ConnectionConditions keyword {k.arg}")
            return f"DConn {slist(fields)} {emit.boolean(wait)} {S(fail)}"
        if name == "PathConditions":
            conds = []
            for a in d.args:
                if not is_attr(a, "PathConditions") or a.attr not in cx.pc:
                    raise Unclassified(f"PathConditions argument {src(a)}")
                conds.append(a.attr)
            if d.keywords:
                raise Unclassified("PathConditions keywords")
            return f"DPathCond {slist(conds)}"
        if name == "PathPermissions":
            perms = []
            for a in d.args:
                if not is_attr(a, "PathPermissions") or a.attr not in cx.pp:
                    raise Unclassified(f"PathPermissions argument {src(a)}")
                perms.append(cx.pp[a.attr])
            if d.keywords:
                raise Unclassified("PathPermissions keywords")
            return f"DPathPerm {slist(perms)}"
    raise Unclassified(f"decorator {src(d)}")


def own_nodes(fn):
    """all nodes of fn's body, not descending into nested function definitions / lambdas"""
    out = []

    def walk(n):
        for c in ast.iter_child_nodes(n):
            if isinstance(c, (ast.FunctionDef, ast.AsyncFunctionDef, ast.Lambda)):
                continue
            out.append(c)
            walk(c)

    for st in fn.body:
        if isinstance(st, (ast.FunctionDef, ast.AsyncFunctionDef)):
            continue
        out.append(st)
        walk(st)
    return out


def const_values_of(fn, name):
    """every constant that `name` can be bound to by (tuple) assignment inside fn; None if some binding is not constant"""
    vals = []
    for n in own_nodes(fn):
        if isinstance(n, ast.Assign):
            for t in n.targets:
                if isinstance(t, ast.Name) and t.id == name:
                    if isinstance(n.value, ast.Constant):
                        vals.append(n.value.value)
                    else:
                        return None
                elif isinstance(t, ast.Tuple):
                    for i, e in enumerate(t.elts):
                        if isinstance(e, ast.Name) and e.id == name:
                            if isinstance(n.value, ast.Tuple) and isinstance(n.value.elts[i], ast.Constant):
                                vals.append(n.value.elts[i].value)
                            else:
                                return None
    return vals


def classify_path_arg(arg, fn, enclosing, listed_vars, params):
    """source of a path argument handed to the backend"""

    def bound_from_get_paths(f, var):
        for n in own_nodes(f):
            if isinstance(n, ast.Assign) and len(n.targets) == 1 and isinstance(n.targets[0], ast.Tuple):
                names = [e.id for e in n.targets[0].elts if isinstance(e, ast.Name)]
                if names and names[0] == var and isinstance(n.value, ast.Call):
                    f_ = n.value.func
                    if isinstance(f_, ast.Attribute) and f_.attr == "get_paths" and isinstance(f_.value, ast.Name) and f_.value.id in ("self", "cls"):
                        a = n.value.args
                        if len(a) == 2 and isinstance(a[0], ast.Name) and a[0].id == "connection" and isinstance(a[1], ast.Name) and a[1].id == "rest":
                            return True
        return False

    def is_real(name):
        return name == "real_path" and (bound_from_get_paths(fn, name) or (enclosing is not None and bound_from_get_paths(enclosing, name)))

    if isinstance(arg, ast.Name):
        if is_real(arg.id):
            return "SReal"
        if arg.id in listed_vars:
            return "SListed"
        if arg.id == "rename_from":
            for n in own_nodes(fn):
                if isinstance(n, ast.Assign) and isinstance(n.targets[0], ast.Name) and n.targets[0].id == "rename_from":
                    if is_attr(n.value, "connection", "rename_from"):
                        return "SRenameFrom"
        if arg.id in params and arg.id == "path":
            return "SParam"
    if isinstance(arg, ast.Attribute) and arg.attr == "parent" and isinstance(arg.value, ast.Name) and is_real(arg.value.id):
        return "SRealParent"
    return f"SUnknown {S(src(arg))}"


def backend_calls(fn, enclosing=None):
    """(bcalls, helpers) for calls on connection.path_io / self.build_* in fn's own body"""
    params = [a.arg for a in fn.args.args]
    listed = set()
    for n in own_nodes(fn):
        if isinstance(n, ast.AsyncFor) and isinstance(n.target, ast.Name):
            it = n.iter
            if isinstance(it, ast.Call) and isinstance(it.func, ast.Attribute) and it.func.attr == "list" and is_attr(it.func.value, "connection", "path_io"):
                listed.add(n.target.id)
    calls, helpers = [], []
    for n in own_nodes(fn):
        if isinstance(n, ast.Call) and isinstance(n.func, ast.Attribute):
            f = n.func
            if is_attr(f.value, "connection", "path_io"):
                args = [classify_path_arg(a, fn, enclosing, listed, params) for a in n.args]
                kw = ",".join(sorted(f"{k.arg}={src(k.value)}" for k in n.keywords if k.arg != "mode"))
                m = f.attr + (f"({kw})" if kw else "")
                calls.append(f"{{| bc_method := {S(m)}; bc_args := [{'; '.join(args)}] |}}")
            elif isinstance(f.value, ast.Name) and f.value.id == "self" and f.attr.startswith("build_"):
                args = [classify_path_arg(a, fn, enclosing, listed, params) for a in n.args[1:]]
                helpers.append(f.attr)
                calls.append(f"{{| bc_method := {S('@' + f.attr)}; bc_args := [{'; '.join(args)}] |}}")
        # any other use of path_io (getattr tricks) is unclassifiable
        if isinstance(n, ast.Call) and isinstance(n.func, ast.Name) and n.func.id == "getattr":
            if any(is_attr(a, "connection", "path_io") for a in n.args):
                raise Unclassified(f"getattr on path_io in {fn.name}")
    return calls, helpers


def response_codes(fn):
    codes = []
    for n in own_nodes(fn):
        if isinstance(n, ast.Call) and is_attr(n.func, "connection", "response"):
            a = n.args[0]
            if isinstance(a, ast.Constant) and isinstance(a.value, str):
                codes.append(a.value)
            elif isinstance(a, ast.Name):
                vals = const_values_of(fn, a.id)
                if not vals:
                    raise Unclassified(f"reply code {src(a)} in {fn.name} is not a literal")
                codes.extend(vals)
            elif isinstance(a, ast.Attribute) and a.attr == "fail_code":
                codes.append("@fail_code")
            else:
                raise Unclassified(f"reply code expression {src(a)} in {fn.name}")
    seen = []
    for c in codes:
        if c not in seen:
            seen.append(c)
    return seen


def returns_of(fn):
    """(literal return values, delegate)"""
    vals, delegate = [], None
    for n in own_nodes(fn):
        if isinstance(n, ast.Return):
            v = n.value
            if v is None:
                raise Unclassified(f"bare return in {fn.name}")
            if isinstance(v, ast.Constant) and isinstance(v.value, bool):
                vals.append(v.value)
            elif isinstance(v, ast.Name):
                cv = const_values_of(fn, v.id)
                if not cv or not all(isinstance(x, bool) for x in cv):
                    raise Unclassified(f"return {v.id} in {fn.name}")
                vals.extend(cv)
            elif isinstance(v, ast.Await) and isinstance(v.value, ast.Call) and is_attr(v.value.func, "self"):
                if delegate is not None:
                    raise Unclassified(f"two delegations in {fn.name}")
                delegate = v.value.func.attr
            else:
                raise Unclassified(f"return expression {src(v)} in {fn.name}")
    out = []
    for v in vals:
        if v not in out:
            out.append(v)
    return out, delegate


def footprint(fn):
    sets, dels, selfw, awaits, selfcalls = [], [], [], [], []

    def add(l, x):
        if x not in l:
            l.append(x)

    def target(t):
        if is_attr(t, "connection"):
            add(sets, t.attr)
        elif isinstance(t, (ast.Tuple, ast.List)):
            for e in t.elts:
                target(e)
        elif isinstance(t, ast.Attribute) or isinstance(t, ast.Subscript):
            base = t
            path = []
            while isinstance(base, (ast.Attribute, ast.Subscript)):
                path.append(base.attr if isinstance(base, ast.Attribute) else "[]")
                base = base.value
            if isinstance(base, ast.Name) and base.id == "self":
                add(selfw, ".".join(reversed(path)))
            elif isinstance(base, ast.Name) and base.id == "connection":
                add(sets, ".".join(reversed(path)))

    for n in own_nodes(fn):
        if isinstance(n, ast.Assign):
            for t in n.targets:
                target(t)
        elif isinstance(n, (ast.AugAssign, ast.AnnAssign)):
            target(n.target)
        elif isinstance(n, ast.Delete):
            for t in n.targets:
                if is_attr(t, "connection"):
                    add(dels, t.attr)
                else:
                    target(t)
        elif isinstance(n, ast.Await) and isinstance(n.value, ast.Call):
            add(awaits, src(n.value.func))
        if isinstance(n, ast.Call):
            f = n.func
            base = f
            while isinstance(base, (ast.Attribute, ast.Subscript, ast.Call)):
                base = base.value if not isinstance(base, ast.Call) else base.func
            if isinstance(base, ast.Name) and base.id == "self" and isinstance(f, ast.Attribute):
                add(selfcalls, src(f))
    return sets, dels, selfw, awaits, selfcalls


def nested_funcs(fn):
    return [st for st in fn.body if isinstance(st, (ast.FunctionDef, ast.AsyncFunctionDef))]


def spawns_of(fn):
    names = {f.name for f in nested_funcs(fn)}
    sp = []
    for n in own_nodes(fn):
        if isinstance(n, ast.Call) and isinstance(n.func, ast.Name) and n.func.id in names:
            sp.append(n.func.id)
    if sp:
        txt = src(fn)
        if "asyncio.create_task(" not in txt or "connection.extra_workers.add(" not in txt:
            raise Unclassified(f"{fn.name}: worker not scheduled through create_task + extra_workers.add")
    return sp


def handler_fact(cx, fn, helper=False):
    decos = [deco_fact(cx, d) for d in fn.decorator_list]
    vals, delegate = ([], None) if helper else returns_of(fn)
    calls, helpers = backend_calls(fn)
    sets, dels, selfw, awaits, selfcalls = footprint(fn)
    gp = any(
        isinstance(n, ast.Call) and isinstance(n.func, ast.Attribute) and n.func.attr == "get_paths"
        for n in own_nodes(fn)
    )
    sp = spawns_of(fn)
    starts = any("_start_passive_server" in c for c in selfcalls)
    return (
        "{| h_name := %s; h_decos := [%s]; h_delegate := %s; h_codes := %s; h_returns := %s;\n"
        "     h_backend := [%s]; h_helpers := %s; h_conn_sets := %s; h_conn_dels := %s;\n"
        "     h_self_writes := %s; h_get_paths := %s; h_spawns := %s; h_awaits := %s;\n"
        "     h_self_calls := %s; h_starts_passive := %s |}"
        % (
            S(fn.name),
            "; ".join(decos),
            emit.option(delegate, S),
            slist(response_codes(fn)),
            blist(vals),
            "; ".join(calls),
            slist(helpers),
            slist(sets),
            slist(dels),
            slist(selfw),
            emit.boolean(gp),
            slist(sp),
            slist(awaits),
            slist(selfcalls),
            emit.boolean(starts),
        )
    )


def worker_fact(cx, owner, fn):
    decos = [deco_fact(cx, d) for d in fn.decorator_list]
    body = fn.body
    detach = (
        len(body) >= 2
        and isinstance(body[0], ast.Assign)
        and is_attr(body[0].value, "connection", "data_connection")
        and isinstance(body[1], ast.Delete)
        and is_attr(body[1].targets[0], "connection", "data_connection")
    )
    ctxs = []
    outer_with_idx = None
    for i, st in enumerate(body):
        if isinstance(st, ast.AsyncWith):
            outer_with_idx = i
    for n in [x for x in own_nodes(fn) if isinstance(x, ast.AsyncWith)]:
        ctxs.append([src(it.context_expr) for it in n.items])
    modes = []
    for n in own_nodes(fn):
        if isinstance(n, ast.Call) and isinstance(n.func, ast.Attribute) and n.func.attr == "open" and is_attr(n.func.value, "connection", "path_io"):
            for k in n.keywords:
                if k.arg == "mode":
                    if isinstance(k.value, ast.Constant):
                        modes.append(k.value.value)
                    elif isinstance(k.value, ast.Name):
                        # resolve `if connection.restart_offset: x = "r+b" else: x = mode`
                        found = []
                        for m in own_nodes(fn):
                            # the offset the worker reads: the dispatcher's hand-over slot (transfer_offset) in the
                            # repaired source, restart_offset itself in the old one (the dispatcher facts say which)
                            if isinstance(m, ast.If) and (is_attr(m.test, "connection", "restart_offset") or is_attr(m.test, "connection", "transfer_offset")):
                                kind = "restart" if is_attr(m.test, "connection", "restart_offset") else "handed"
                                for br, tag in ((m.body, kind + ":"), (m.orelse, "no" + kind + ":")):
                                    for s_ in br:
                                        if isinstance(s_, ast.Assign) and isinstance(s_.targets[0], ast.Name) and s_.targets[0].id == k.value.id:
                                            v = s_.value
                                            found.append(tag + (v.value if isinstance(v, ast.Constant) else "$" + src(v)))
                        if not found:
                            raise Unclassified(f"open mode {src(k.value)} in {fn.name}")
                        modes.extend(found)
                    else:
                        raise Unclassified(f"open mode {src(k.value)} in {fn.name}")
    calls, helpers = backend_calls(fn, enclosing=owner)
    codes = response_codes(fn)
    vals, delegate = returns_of(fn)
    reply_after = False
    if outer_with_idx is not None:
        for i, st in enumerate(body):
            if i > outer_with_idx and isinstance(st, ast.Expr) and isinstance(st.value, ast.Call) and is_attr(st.value.func, "connection", "response"):
                reply_after = True
        # and no response inside any async with
        for n in [x for x in own_nodes(fn) if isinstance(x, ast.AsyncWith)]:
            for m in ast.walk(n):
                if isinstance(m, ast.Call) and is_attr(m.func, "connection", "response"):
                    reply_after = False
    return (
        "{| w_name := %s; w_owner := %s; w_decos := [%s]; w_detach_first := %s; w_ctx := [%s];\n"
        "     w_open_modes := %s; w_backend := [%s]; w_helpers := %s; w_codes := %s;\n"
        "     w_reply_after_ctx := %s; w_returns := %s |}"
        % (
            S(fn.name),
            S(owner.name),
            "; ".join(decos),
            emit.boolean(detach),
            "; ".join(slist(c) for c in ctxs),
            slist(modes),
            "; ".join(calls),
            slist(helpers),
            slist(codes),
            emit.boolean(reply_after),
            blist(vals),
        )
    )


# ---------------------------------------------------------------- dispatcher
def guard_tag(test):
    t = src(test)
    table = {
        "not asyncio.get_running_loop().is_closed()": "loop_open",
        "self.available_data_ports is not None": "ports",
        "connection.acquired": "acquired",
        "tasks_to_wait": "any_tasks",
    }
    if t in table:
        return table[t]
    if isinstance(test, ast.Call) and isinstance(test.func, ast.Attribute) and test.func.attr == "done":
        v = test.func.value
        if isinstance(v, ast.Attribute) and is_attr(v.value, "connection", "future"):
            return "has:" + v.attr
    raise Unclassified(f"finally guard {t}")


def action_tag(st, env):
    t = src(st)
    if t.startswith("logger."):
        return "log"
    if t == "tasks_to_wait = []":
        return None
    if t == "task.cancel()":
        return "cancel:" + env.get("for", "?")
    if t == "tasks_to_wait.append(task)":
        return "wait:task"
    if t == "connection.passive_server.close()":
        return "close:passive_server"
    if t == "port = connection.passive_server_port":
        env["port"] = "passive_server_port"
        return None
    if t.startswith("self.available_data_ports.put_nowait("):
        a = st.value.args[0]
        if isinstance(a, ast.Tuple) and isinstance(a.elts[0], ast.Constant):
            pv = a.elts[1]
            what = env.get("port") if isinstance(pv, ast.Name) and pv.id == "port" else src(pv)
            return f"putport:{a.elts[0].value}:{what}"
    if t == "connection.data_connection.close()":
        return "close:data_connection"
    if t == "stream.close()":
        return "close:control"
    if t == "self.available_connections.release()":
        return "release:server_slot"
    if t == "task = asyncio.create_task(self.user_manager.notify_logout(connection.user))":
        return "notify_logout"
    if t == "self.connections.pop(key)":
        return "pop:connections"
    if t == "await asyncio.wait(tasks_to_wait)":
        return "await:tasks"
    raise Unclassified(f"finally statement {t}")


def flatten_finally(stmts, guards, env, out):
    for st in stmts:
        if isinstance(st, ast.If):
            if st.orelse:
                raise Unclassified("else branch in dispatcher finally")
            flatten_finally(st.body, guards + [guard_tag(st.test)], env, out)
        elif isinstance(st, ast.For):
            e2 = dict(env)
            e2["for"] = src(st.iter).replace(" ", "")
            flatten_finally(st.body, guards, e2, out)
            env.update({k: v for k, v in e2.items() if k != "for"})
        else:
            tag = action_tag(st, env)
            if tag is not None:
                out.append(",".join(guards) + "=>" + tag)


def except_actions(h):
    acts = []
    for st in h.body:
        t = src(st)
        if isinstance(st, ast.Raise) and st.exc is None:
            acts.append("raise")
        elif isinstance(st, ast.Continue):
            acts.append("continue")
        elif t.startswith("logger."):
            acts.append("log")
        elif isinstance(st, ast.Expr) and isinstance(st.value, ast.Call) and is_attr(st.value.func, "connection", "response"):
            acts.append("response:" + ast.literal_eval(st.value.args[0]))
        else:
            raise Unclassified(f"except action {t}")
    return acts


def dispatcher_facts(cx):
    init = cx.methods["__init__"]
    table = None
    for n in ast.walk(init):
        if isinstance(n, ast.Assign) and is_attr(n.targets[0], "self", "commands_mapping"):
            if not isinstance(n.value, ast.Dict):
                raise Unclassified("commands_mapping is not a dict literal")
            table = []
            for k, v in zip(n.value.keys, n.value.values):
                if not (isinstance(k, ast.Constant) and isinstance(k.value, str) and is_attr(v, "self")):
                    raise Unclassified(f"commands_mapping entry {src(k)}: {src(v)}")
                table.append((k.value, v.attr))
    if table is None:
        raise Unclassified("commands_mapping not found")
    # other writers of commands_mapping anywhere in the class make the table non-literal
    literal = True
    for n in ast.walk(cx.server):
        if isinstance(n, (ast.Assign, ast.AugAssign)):
            ts = n.targets if isinstance(n, ast.Assign) else [n.target]
            for t in ts:
                if isinstance(t, ast.Subscript) and is_attr(t.value, "self", "commands_mapping"):
                    literal = False
        if isinstance(n, ast.Call) and isinstance(n.func, ast.Name) and n.func.id == "getattr":
            if any(isinstance(a, ast.Name) and a.id == "self" for a in n.args):
                literal = False
    disp = cx.methods["dispatcher"]
    lookup_ok = "self.commands_mapping.get(cmd)" in src(disp)
    tr = [st for st in disp.body if isinstance(st, ast.Try)]
    if len(tr) != 1:
        raise Unclassified("dispatcher: expected exactly one top-level try")
    tr = tr[0]
    # Granular fail-closed: a fact group that cannot be classified becomes a sentinel ("?unclassified: ...") which no
    # reference value equals, so only the obligations that mention THAT fact break (and the properties that never
    # look at it are not alarmed by an edit that is harmless to them).
    def guarded(f, sentinel):
        try:
            return f()
        except Unclassified as e:
            UNCLASSIFIED_NOTES.append(str(e))
            return sentinel("?unclassified: " + str(e).replace('"', "'"))

    outer = guarded(
        lambda: [(src(h.type) if h.type else "BaseException", except_actions(h)) for h in tr.handlers],
        lambda m: [(m, [])],
    )

    def _fin():
        f = []
        flatten_finally(tr.finalbody, [], {}, f)
        return f

    fin = guarded(_fin, lambda m: [m])
    # inner try around task.result()
    inner = [n for n in ast.walk(ast.Module(body=tr.body, type_ignores=[])) if isinstance(n, ast.Try)]
    if len(inner) != 1:
        raise Unclassified("dispatcher: expected exactly one inner try")
    inner = inner[0]
    if "task.result()" not in src(inner.body[0]):
        raise Unclassified("dispatcher: inner try does not wrap task.result()")
    task_exc = guarded(
        lambda: [(src(h.type) if h.type else "BaseException", except_actions(h)) for h in inner.handlers],
        lambda m: [(m, [])],
    )
    # restart offset reset
    exempt = None
    handed = []
    unknown = None
    # repaired shape: `if cmd in (...): connection.transfer_offset = connection.restart_offset` directly followed
    # by an unconditional `connection.restart_offset = 0` (no verb exempt; the offset is handed to the listed verbs)
    for n in ast.walk(disp):
        for blk in (getattr(n, "body", None), getattr(n, "orelse", None)):
            if not isinstance(blk, list):
                continue
            for i, st in enumerate(blk):
                if isinstance(st, ast.stmt) and src(st) == "connection.restart_offset = 0" and not (
                    isinstance(n, ast.If) and isinstance(n.test, ast.Compare) and isinstance(n.test.ops[0], ast.NotIn)
                ):
                    prev = blk[i - 1] if i > 0 else None
                    if (
                        isinstance(prev, ast.If)
                        and isinstance(prev.test, ast.Compare)
                        and isinstance(prev.test.left, ast.Name)
                        and prev.test.left.id == "cmd"
                        and isinstance(prev.test.ops[0], ast.In)
                        and not prev.orelse
                        and [src(x) for x in prev.body] == ["connection.transfer_offset = connection.restart_offset"]
                    ):
                        exempt = []
                        handed = list(ast.literal_eval(prev.test.comparators[0]))
                    else:
                        UNCLASSIFIED_NOTES.append("dispatcher: unconditional restart_offset reset without the hand-over")
                        exempt = ["?unclassified: unconditional restart_offset reset without the hand-over to transfer commands"]
    false_ends = False
    for n in ast.walk(disp):
        if isinstance(n, ast.If):
            t = n.test
            if isinstance(t, ast.Compare) and isinstance(t.left, ast.Name) and t.left.id == "cmd" and isinstance(t.ops[0], ast.NotIn):
                body = src(n.body[0])
                if body == "connection.restart_offset = 0":
                    exempt = list(ast.literal_eval(t.comparators[0]))
            if src(t) == "not result":
                b = [src(s_) for s_ in n.body]
                if b and b[-1] == "return":
                    false_ends = True
        if isinstance(n, ast.Call) and is_attr(n.func, "connection", "response"):
            a = n.args[0]
            if isinstance(a, ast.Constant) and a.value.startswith("50"):
                unknown = a.value
    if exempt is None:
        UNCLASSIFIED_NOTES.append("dispatcher: restart_offset reset not found")
        exempt = ["?unclassified: restart_offset reset not found"]
    if unknown is None:
        raise Unclassified("dispatcher: unknown-verb reply not found")
    pend = []
    conn_kw = []
    for n in ast.walk(disp):
        if isinstance(n, ast.Assign) and isinstance(n.targets[0], ast.Name) and n.targets[0].id == "pending" and isinstance(n.value, ast.Set):
            for e in n.value.elts:
                c = e.args[0]
                pend.append(c.func.attr if isinstance(c, ast.Call) and isinstance(c.func, ast.Attribute) else src(c))
        if isinstance(n, ast.Call) and isinstance(n.func, ast.Name) and n.func.id == "Connection":
            conn_kw = [k.arg for k in n.keywords]
    pr = lambda l: "[" + "; ".join(f"({S(a)}, {slist(b)})" for a, b in l) + "]"
    return table, (
        "{| d_table := [%s];\n     d_table_literal := %s;\n     d_task_except := %s;\n     d_outer_except := %s;\n"
        "     d_finally := %s;\n     d_reset_exempt := %s; d_offset_handed := %s; d_unknown_code := %s; d_false_ends := %s;\n"
        "     d_initial_pending := %s; d_conn_init := %s |}"
        % (
            "; ".join(f"({S(k)}, {S(v)})" for k, v in table),
            emit.boolean(literal and lookup_ok),
            pr(task_exc),
            pr(outer),
            slist(fin),
            slist(exempt),
            slist(handed),
            S(unknown),
            emit.boolean(false_ends),
            slist(pend),
            slist(conn_kw),
        )
    )


def generate(src_dir):
    path = Path(src_dir) / "server.py"
    tree = ast.parse(path.read_text())
    cx = Ctx(tree)
    del UNCLASSIFIED_NOTES[:]
    table, dfacts = dispatcher_facts(cx)
    names = []
    for _, m in table:
        if m not in names:
            names.append(m)
    for extra in ("greeting",):
        if extra not in names:
            names.append(extra)
    # helpers reachable from handlers that touch the backend
    helper_names = [n for n in cx.methods if n.startswith("build_") and n.endswith("_string")]
    hs, ws = [], []
    for n in names:
        fn = cx.methods.get(n)
        if fn is None:
            raise Unclassified(f"handler {n} not found")
        hs.append(handler_fact(cx, fn))
        for w in nested_funcs(fn):
            if any(isinstance(d, ast.Name) and d.id == "worker" for d in w.decorator_list):
                ws.append(worker_fact(cx, fn, w))
    helpers = [handler_fact(cx, cx.methods[n], helper=True) for n in helper_names]
    # the three decorator classes: where the guard sits relative to the wrapped call
    pcdefs = "; ".join(
        f"({S(k)}, ({S(v[0])}, {emit.boolean(v[1])}))" for k, v in cx.pc.items() if isinstance(v, tuple) and len(v) == 3
    )
    # PathPermissions.__call__: `return await f(...)` placed inside the for loop => only the first flag is checked
    pp_call = [n for n in cx.classes["PathPermissions"].body if isinstance(n, ast.FunctionDef) and n.name == "__call__"][0]
    first_only = False
    for n in ast.walk(pp_call):
        if isinstance(n, ast.For):
            first_only = any(isinstance(s_, ast.Return) and isinstance(s_.value, ast.Await) for s_ in n.body)
    # worker decorator: which exception it turns into which replies
    wk = cx.funcs["worker"]
    wk_exc = []
    for n in ast.walk(wk):
        if isinstance(n, ast.ExceptHandler):
            codes = [ast.literal_eval(c.args[0]) for c in ast.walk(n) if isinstance(c, ast.Call) and is_attr(c.func, "connection", "response")]
            wk_exc.append((src(n.type), codes))
    # abor decision expression
    abor = cx.methods["abor"]
    abor_test = None
    for n in abor.body:
        if isinstance(n, ast.If):
            abor_test = src(n.test)
    out = emit.HEADER.format(src=str(path))
    out += "From Coq Require Import String.\nFrom Verif Require Import Lib.Facts.\nLocal Open Scope string_scope.\n\n"
    out += "Definition translator_ok : bool := true.\n"
    out += "(* fact groups the translator could not classify (their values are '?unclassified' sentinels) *)\n"
    out += f"Definition translator_notes : list string := {slist(UNCLASSIFIED_NOTES)}.\n\n"
    out += "Definition dispatcher : dispatcher_facts :=\n  " + dfacts + ".\n\n"
    out += "Definition handlers : list handler := [\n  " + ";\n  ".join(hs) + "\n].\n\n"
    out += "Definition helpers : list handler := [\n  " + ";\n  ".join(helpers) + "\n].\n\n"
    out += "Definition workers : list worker := [\n  " + ";\n  ".join(ws) + "\n].\n\n"
    out += f"Definition pathcond_defs : list (string * (string * bool)) := [{pcdefs}].\n"
    out += f"Definition pathperm_first_flag_only : bool := {emit.boolean(first_only)}.\n"
    out += "Definition worker_except : list (string * list string) := [" + "; ".join(f"({S(a)}, {slist(b)})" for a, b in wk_exc) + "].\n"
    out += f"Definition abor_condition : string := {S(abor_test or '?')}.\n"
    return out
