"""Gen/Workers.v: the structure of server.py that the transfer model (Model/Transfer.v, C12 and C14) is
parametric in, derived independently of gen_dispatch.py and normalised so that harmless rewrites give the
same facts:

  transfer_workers   for every nested *_worker of a handler: name, its decorators outermost first
                     ("wait:<fail code>" for ConnectionConditions(..., wait=True), "worker" for @worker), the
                     items of its `async with` statements in entry order (nested `async with` = one list),
                     whether the body starts with  stream = connection.data_connection; del connection.data_connection
                     and whether the completion reply follows the outermost `async with`
  worker_cancel_codes  reply codes queued by @worker's `except asyncio.CancelledError` clause
  abor_norm          the condition under which abor() cancels, normalised:
                       "connection.extra_workers"                                                 (set non-empty)
                       "any((not worker.done() for worker in connection.extra_workers))"          (some task not done)
  abor_cancels_all   the cancelling branch calls .cancel() on every element of connection.extra_workers
  abor_reply         reply codes of the other branch
  passive_take_before_await  _start_passive_server takes the port from available_data_ports before awaiting start_server
  passive_giveback   exception classes whose handler around that await puts the port back

Pure ast walk.  Fail closed: anything that does not fit raises Unclassified."""
import ast
from pathlib import Path

from . import emit
from .gen_dispatch import S, Unclassified, is_attr, slist, src

WORKERS = ("retr_worker", "stor_worker", "list_worker", "mlsd_worker")


def _is_extra_workers(n):
    """connection.extra_workers, possibly wrapped in list()/set()/tuple()/frozenset()"""
    if is_attr(n, "connection", "extra_workers"):
        return True
    if isinstance(n, ast.Call) and isinstance(n.func, ast.Name) and n.func.id in ("list", "set", "tuple", "frozenset", "sorted") and len(n.args) == 1 and not n.keywords:
        return _is_extra_workers(n.args[0])
    return False


def norm_test(t):
    """-> (kind, positive?) with kind in {"truthy", "notdone"}"""
    if isinstance(t, ast.UnaryOp) and isinstance(t.op, ast.Not):
        k, pos = norm_test(t.operand)
        return k, not pos
    if _is_extra_workers(t):
        return "truthy", True
    if isinstance(t, ast.Call) and isinstance(t.func, ast.Name) and t.func.id == "bool" and len(t.args) == 1 and _is_extra_workers(t.args[0]):
        return "truthy", True
    if isinstance(t, ast.Compare) and len(t.ops) == 1 and isinstance(t.left, ast.Call) and isinstance(t.left.func, ast.Name) and t.left.func.id == "len" \
            and len(t.left.args) == 1 and _is_extra_workers(t.left.args[0]) and isinstance(t.comparators[0], ast.Constant):
        op, c = t.ops[0], t.comparators[0].value
        if (isinstance(op, ast.Gt) and c == 0) or (isinstance(op, ast.NotEq) and c == 0) or (isinstance(op, ast.GtE) and c == 1):
            return "truthy", True
        if (isinstance(op, ast.Eq) and c == 0) or (isinstance(op, ast.Lt) and c == 1):
            return "truthy", False
    if isinstance(t, ast.Call) and isinstance(t.func, ast.Name) and t.func.id in ("any", "all") and len(t.args) == 1 and isinstance(t.args[0], (ast.GeneratorExp, ast.ListComp)):
        g = t.args[0]
        if len(g.generators) == 1 and not g.generators[0].ifs and _is_extra_workers(g.generators[0].iter) and isinstance(g.generators[0].target, ast.Name):
            v = g.generators[0].target.id
            e = g.elt
            neg = False
            if isinstance(e, ast.UnaryOp) and isinstance(e.op, ast.Not):
                neg, e = True, e.operand
            if isinstance(e, ast.Call) and is_attr(e.func, v, "done") and not e.args:
                if t.func.id == "any" and neg:
                    return "notdone", True
                if t.func.id == "all" and not neg:
                    return "notdone", False
    raise Unclassified(f"abor(): condition {src(t)!r} not understood")


def branch_kind(stmts):
    """("cancel", covers_all) | ("reply", codes)"""
    cancels, replies, other = [], [], []
    for st in stmts:
        if isinstance(st, ast.For) and isinstance(st.target, ast.Name) and not st.orelse:
            v = st.target.id
            ok = all(isinstance(b, ast.Expr) and isinstance(b.value, ast.Call) and is_attr(b.value.func, v, "cancel") and not b.value.args for b in st.body)
            if ok and st.body:
                cancels.append(_is_extra_workers(st.iter))
                continue
        if isinstance(st, ast.Expr) and isinstance(st.value, ast.Call) and is_attr(st.value.func, "connection", "response"):
            replies.append(ast.literal_eval(st.value.args[0]))
            continue
        other.append(src(st))
    if other or (cancels and replies):
        raise Unclassified(f"abor(): branch not understood: {other or 'cancels and replies'}")
    if cancels:
        return "cancel", all(cancels)
    return "reply", replies


def abor_facts(fn):
    body = [st for st in fn.body if not (isinstance(st, ast.Expr) and isinstance(st.value, ast.Constant))]
    if len(body) != 2 or not isinstance(body[0], ast.If) or not (isinstance(body[1], ast.Return) and isinstance(body[1].value, ast.Constant) and body[1].value.value is True):
        raise Unclassified("abor(): body is not `if ...: ... else: ...; return True`")
    node = body[0]
    kind, pos = norm_test(node.test)
    a, b = branch_kind(node.body), branch_kind(node.orelse)
    if a[0] == "cancel" and b[0] == "reply":
        cancel, reply = a, b
    elif a[0] == "reply" and b[0] == "cancel":
        cancel, reply, pos = b, a, not pos
    else:
        raise Unclassified("abor(): need one cancelling and one replying branch")
    if not pos:
        raise Unclassified("abor(): cancels when there is nothing to cancel")
    norm = "connection.extra_workers" if kind == "truthy" else "any((not worker.done() for worker in connection.extra_workers))"
    return norm, cancel[1], reply[1]


def deco_kind(d):
    if isinstance(d, ast.Name) and d.id == "worker":
        return "worker"
    if isinstance(d, ast.Call) and isinstance(d.func, ast.Name) and d.func.id == "ConnectionConditions":
        kw = {k.arg: k.value for k in d.keywords}
        wait = isinstance(kw.get("wait"), ast.Constant) and kw["wait"].value is True
        fields = [a.attr for a in d.args if isinstance(a, ast.Attribute)]
        if wait:
            code = kw.get("fail_code")
            return "wait:" + (code.value if isinstance(code, ast.Constant) else "503")
        return "cond:" + ",".join(fields)
    raise Unclassified(f"worker decorator {src(d)!r} not understood")


def with_items(fn):
    """items of the async-with nest at the top level of the worker body, in entry order; and whether a
    connection.response(...) follows it at the top level"""
    items = []
    tops = [i for i, st in enumerate(fn.body) if isinstance(st, ast.AsyncWith)]
    if len(tops) != 1:
        raise Unclassified(f"{fn.name}: expected exactly one top-level `async with`, found {len(tops)}")
    node = fn.body[tops[0]]
    while True:
        for it in node.items:
            if it.optional_vars is not None or not isinstance(it.context_expr, ast.Name):
                raise Unclassified(f"{fn.name}: `async with` item {src(it)!r} not understood")
            items.append(it.context_expr.id)
        if len(node.body) == 1 and isinstance(node.body[0], ast.AsyncWith):
            node = node.body[0]
        else:
            break
    reply_after = any(
        isinstance(st, ast.Expr) and isinstance(st.value, ast.Call) and is_attr(st.value.func, "connection", "response")
        for st in fn.body[tops[0] + 1 :]
    )
    reply_inside = any(
        isinstance(c, ast.Call) and is_attr(c.func, "connection", "response") for st in fn.body[: tops[0] + 1] for c in ast.walk(st)
    )
    return items, reply_after and not reply_inside


def detach_first(fn):
    body = [st for st in fn.body if not (isinstance(st, ast.Expr) and isinstance(st.value, ast.Constant))]
    if len(body) < 2:
        return False
    a, b = body[0], body[1]
    ok_a = isinstance(a, ast.Assign) and len(a.targets) == 1 and isinstance(a.targets[0], ast.Name) and a.targets[0].id == "stream" and is_attr(a.value, "connection", "data_connection")
    ok_b = isinstance(b, ast.Delete) and len(b.targets) == 1 and is_attr(b.targets[0], "connection", "data_connection")
    return ok_a and ok_b


def passive_facts(fn):
    """_start_passive_server: is the port taken before the await, and which handlers around the await give it back"""
    take_before, give = None, []
    found = False
    for t in ast.walk(fn):
        if not isinstance(t, ast.Try):
            continue
        aw = [n for st in t.body for n in ast.walk(st) if isinstance(n, ast.Await) and isinstance(n.value, ast.Call) and is_attr(n.value.func, "asyncio", "start_server")]
        if not aw:
            continue
        if found:
            raise Unclassified("_start_passive_server: more than one try around start_server")
        found = True
        pos_get = pos_aw = None
        for i, st in enumerate(t.body):
            for n in ast.walk(st):
                if isinstance(n, ast.Call) and isinstance(n.func, ast.Attribute) and n.func.attr in ("get_nowait", "get") and "available_data_ports" in src(n.func.value):
                    pos_get = i if pos_get is None else pos_get
                if n is aw[0]:
                    pos_aw = i
        take_before = pos_get is not None and pos_aw is not None and pos_get < pos_aw
        for h in t.handlers:
            puts = [n for st in h.body for n in ast.walk(st) if isinstance(n, ast.Call) and isinstance(n.func, ast.Attribute) and n.func.attr in ("put_nowait", "put") and "available_data_ports" in src(n.func.value)]
            if puts:
                if h.type is None:
                    give.append("BaseException")
                elif isinstance(h.type, ast.Tuple):
                    give += [src(e) for e in h.type.elts]
                else:
                    give.append(src(h.type))
        if t.finalbody:
            for st in t.finalbody:
                for n in ast.walk(st):
                    if isinstance(n, ast.Call) and isinstance(n.func, ast.Attribute) and n.func.attr in ("put_nowait", "put") and "available_data_ports" in src(n.func.value):
                        raise Unclassified("_start_passive_server: port returned in a finally block (not modelled)")
    if not found:
        raise Unclassified("_start_passive_server: no try around `await asyncio.start_server` in the data_ports branch")
    return take_before, give


def generate(src_dir):
    path = Path(src_dir) / "server.py"
    tree = ast.parse(path.read_text())
    server = next(n for n in tree.body if isinstance(n, ast.ClassDef) and n.name == "Server")
    methods = {n.name: n for n in server.body if isinstance(n, (ast.FunctionDef, ast.AsyncFunctionDef))}
    funcs = {n.name: n for n in tree.body if isinstance(n, (ast.FunctionDef, ast.AsyncFunctionDef))}
    ws = []
    seen = set()
    for mname, m in sorted(methods.items()):
        for w in m.body:
            if isinstance(w, ast.AsyncFunctionDef) and w.name.endswith("_worker"):
                if w.name in seen:
                    raise Unclassified(f"two workers named {w.name}")
                seen.add(w.name)
                decos = [deco_kind(d) for d in w.decorator_list]
                items, reply_after = with_items(w)
                ws.append((w.name, mname, decos, items, detach_first(w), reply_after))
    missing = [w for w in WORKERS if w not in seen]
    if missing:
        raise Unclassified(f"transfer workers not found: {missing}")
    # @worker
    wk = funcs.get("worker")
    if wk is None:
        raise Unclassified("decorator `worker` not found")
    cancel_codes = None
    for n in ast.walk(wk):
        if isinstance(n, ast.ExceptHandler) and n.type is not None and src(n.type) in ("asyncio.CancelledError", "CancelledError"):
            reraises = any(isinstance(x, ast.Raise) for x in ast.walk(n))
            codes = [ast.literal_eval(c.args[0]) for st in n.body for c in ast.walk(st) if isinstance(c, ast.Call) and is_attr(c.func, "connection", "response")]
            if reraises:
                raise Unclassified("@worker re-raises CancelledError (not modelled)")
            cancel_codes = codes
    if "abor" not in methods or "_start_passive_server" not in methods:
        raise Unclassified("Server.abor / Server._start_passive_server not found")
    norm, cancels_all, reply = abor_facts(methods["abor"])
    take_before, give = passive_facts(methods["_start_passive_server"])

    out = emit.HEADER.format(src=str(path))
    out += "From Coq Require Import String.\nLocal Open Scope string_scope.\n\n"
    out += "Definition translator_ok : bool := true.\n\n"
    out += "(* name, owner, decorators outermost first, async-with items in entry order, detach-first, reply after the with *)\n"
    out += "Definition transfer_workers : list (string * string * list string * list string * bool * bool) := [\n  "
    out += ";\n  ".join(f"({S(n)}, {S(o)}, {slist(d)}, {slist(i)}, {emit.boolean(df)}, {emit.boolean(ra)})" for n, o, d, i, df, ra in ws)
    out += "\n].\n"
    out += "Definition worker_cancel_codes : option (list string) := " + ("None" if cancel_codes is None else f"(Some {slist(cancel_codes)})") + ".\n"
    out += f"Definition abor_norm : string := {S(norm)}.\n"
    out += f"Definition abor_cancels_all : bool := {emit.boolean(cancels_all)}.\n"
    out += f"Definition abor_reply : list string := {slist(reply)}.\n"
    out += f"Definition passive_take_before_await : bool := {emit.boolean(bool(take_before))}.\n"
    out += f"Definition passive_giveback : list string := {slist(give)}.\n"
    return out
