"""Gen/Isolation.v: where does server.py keep state?  (C17)

For every function that runs on behalf of a session (all methods of Server incl. nested workers and
accept handlers, the decorator wrappers ConnectionConditions / PathConditions / PathPermissions /
worker) the WRITE SITES: attribute / subscript assignments, deletions, augmented assignments and
calls of mutating methods, each with the ROOT of the object written to:
  connection   the handler's own `connection` parameter (or the enclosing handler's, for closures)
  self / cls   the server object (in decorator wrappers `self` is the decorator instance, shared)
  local        a local variable, with the roots it was computed from (self? connection? parameters?)
  free:<name>  a module-level / builtin name,   global:<name>  a name declared global / nonlocal
plus: who rebinds the name `connection`, who touches the registry `self.connections`, where
Connection(...) is constructed and where every keyword of it comes from, how the response queue,
the backend instance and the passive accept handler are wired.

Pure ast walk, fail closed (Unclassified -> translator_ok_isolation := false)."""
import ast
from pathlib import Path

from . import emit


class Unclassified(Exception):
    pass


MUTATORS = {
    "add", "append", "extend", "insert", "pop", "popitem", "remove", "discard", "clear", "update", "setdefault",
    "put", "put_nowait", "get_nowait", "acquire", "release", "close", "cancel", "set", "set_result", "set_exception",
    "write", "writelines", "seek", "truncate", "sort", "reverse", "appendleft", "popleft", "task_done", "__setitem__",
    "__setattr__", "__delitem__", "__delattr__", "send", "throw",
}
SCOPES = ("ConnectionConditions", "PathConditions", "PathPermissions")
FN = (ast.FunctionDef, ast.AsyncFunctionDef)


def S(s):
    return '"' + s.replace('"', '""') + '"'


def slist(xs):
    return "[" + "; ".join(S(x) for x in xs) + "]"


def src(n):
    return ast.unparse(n)


class Fn:
    def __init__(self, name, node, parent):
        self.name = name
        self.node = node
        self.parent = parent
        a = node.args
        self.params = [x.arg for x in a.posonlyargs + a.args + a.kwonlyargs]
        if a.vararg:
            self.params.append(a.vararg.arg)
        if a.kwarg:
            self.params.append(a.kwarg.arg)
        self.bind = {}  # local name -> list of value expressions it is computed from
        self.globals = []
        self.children = []

    def own(self):
        """nodes of this function's own body (not of nested defs; lambdas and comprehensions included)"""
        out = []

        def walk(n):
            for c in ast.iter_child_nodes(n):
                if isinstance(c, FN) or isinstance(c, ast.ClassDef):
                    continue
                out.append(c)
                walk(c)

        for st in self.node.body:
            if isinstance(st, FN) or isinstance(st, ast.ClassDef):
                continue
            out.append(st)
            walk(st)
        return out

    def lookup(self, nm):
        """the function (self or enclosing) in which nm is a parameter or a local"""
        f = self
        while f is not None:
            if nm in f.params or nm in f.bind:
                return f
            f = f.parent
        return None


def collect(name, node, parent, acc):
    f = Fn(name, node, parent)
    acc.append(f)
    # nested defs (direct children at any statement depth, not inside other defs)
    def find_defs(n):
        for c in ast.iter_child_nodes(n):
            if isinstance(c, FN):
                collect(name + "." + c.name, c, f, acc)
                f.children.append(c.name)
            elif isinstance(c, ast.ClassDef):
                raise Unclassified(f"class nested in {name}")
            else:
                find_defs(c)

    find_defs(node)
    # bindings
    def bind_target(t, value):
        if isinstance(t, ast.Name):
            f.bind.setdefault(t.id, []).append(value)
        elif isinstance(t, (ast.Tuple, ast.List)):
            for e in t.elts:
                bind_target(e, value)
        elif isinstance(t, ast.Starred):
            bind_target(t.value, value)

    for n in f.own():
        if isinstance(n, ast.Assign):
            for t in n.targets:
                bind_target(t, n.value)
        elif isinstance(n, ast.AugAssign):
            bind_target(n.target, n.value)
        elif isinstance(n, ast.AnnAssign) and n.value is not None:
            bind_target(n.target, n.value)
        elif isinstance(n, (ast.For, ast.AsyncFor)):
            bind_target(n.target, n.iter)
        elif isinstance(n, (ast.With, ast.AsyncWith)):
            for it in n.items:
                if it.optional_vars is not None:
                    bind_target(it.optional_vars, it.context_expr)
        elif isinstance(n, ast.comprehension):
            bind_target(n.target, n.iter)
        elif isinstance(n, ast.NamedExpr):
            bind_target(n.target, n.value)
        elif isinstance(n, ast.ExceptHandler) and n.name:
            f.bind.setdefault(n.name, []).append(ast.Constant(None))
        elif isinstance(n, (ast.Global, ast.Nonlocal)):
            f.globals.extend(n.names)
        elif isinstance(n, ast.Lambda):
            a = n.args
            for x in a.posonlyargs + a.args + a.kwonlyargs + ([a.vararg] if a.vararg else []) + ([a.kwarg] if a.kwarg else []):
                f.bind.setdefault(x.arg, []).append(ast.Constant(None))
        elif isinstance(n, (ast.Import, ast.ImportFrom)):
            raise Unclassified(f"import inside {name}")
    return f


SERVER_METHODS = set()


def roots_of_expr(f, e, module_names, seen):
    """names the value of e is computed from.  The result of calling a METHOD of the server object
    (self.get_paths(...), self.build_mlsx_string(...)) is not an alias of server state: only its
    arguments count; any other use of self / cls (self.connections.values(), self.x[...]) does."""
    out = set()

    def visit(n):
        nonlocal out
        if (
            isinstance(n, ast.Call)
            and isinstance(n.func, ast.Attribute)
            and isinstance(n.func.value, ast.Name)
            and n.func.value.id in ("self", "cls")
            and n.func.attr in SERVER_METHODS
        ):
            for a in n.args:
                visit(a)
            for k in n.keywords:
                visit(k.value)
            return
        if isinstance(n, ast.Name):
            out |= roots_of_name(f, n.id, module_names, seen)
        for c in ast.iter_child_nodes(n):
            visit(c)

    visit(e)
    return out


def roots_of_name(f, nm, module_names, seen):
    owner = f.lookup(nm)
    if owner is None:
        return {"@" + nm} if nm in module_names else set()
    if nm in owner.params and nm not in owner.bind:
        return {nm}
    key = (owner.name, nm)
    if key in seen:
        return set()
    seen = seen | {key}
    out = {nm} if nm in owner.params else set()
    for v in owner.bind.get(nm, []):
        out |= roots_of_expr(owner, v, module_names, seen)
    return out


def chain(e):
    """(root expression, path components) of an attribute / subscript / call chain"""
    path = []
    while True:
        if isinstance(e, ast.Attribute):
            path.append(e.attr)
            e = e.value
        elif isinstance(e, ast.Subscript):
            path.append("[]")
            e = e.value
        elif isinstance(e, ast.Call):
            path.append("()")
            e = e.func
        elif isinstance(e, ast.Await):
            e = e.value
        else:
            break
    return e, list(reversed(path))


def site(f, recv, kind, module_names):
    root, path = chain(recv)
    p = ".".join(path)
    if isinstance(root, ast.Name):
        nm = root.id
        if nm in f.globals:
            return (f.name, "global:" + nm, p, kind, [])
        owner = f.lookup(nm)
        if owner is None:
            return (f.name, "free:" + nm, p, kind, [])
        if nm == "connection":
            return (f.name, "connection", p, kind, [])
        if nm in ("self", "cls") and nm in owner.params:
            return (f.name, nm, p, kind, [])
        rs = sorted(roots_of_name(f, nm, module_names, frozenset()))
        return (f.name, "local", (nm + ("." + p if p else "")), kind, rs)
    return (f.name, "expr", src(recv)[:60], kind, sorted(roots_of_expr(f, recv, module_names, frozenset())))


def sites_of(f, module_names):
    out = []

    def target(t, kind):
        if isinstance(t, ast.Name):
            if t.id in f.globals:
                out.append((f.name, "global:" + t.id, "", kind, []))
        elif isinstance(t, (ast.Tuple, ast.List)):
            for e in t.elts:
                target(e, kind)
        elif isinstance(t, ast.Starred):
            target(t.value, kind)
        elif isinstance(t, (ast.Attribute, ast.Subscript)):
            out.append(site(f, t, kind, module_names))
        else:
            raise Unclassified(f"assignment target {src(t)} in {f.name}")

    for n in f.own():
        if isinstance(n, ast.Assign):
            for t in n.targets:
                target(t, "set")
        elif isinstance(n, ast.AugAssign):
            target(n.target, "aug")
        elif isinstance(n, ast.AnnAssign):
            target(n.target, "set")
        elif isinstance(n, ast.Delete):
            for t in n.targets:
                target(t, "del")
        elif isinstance(n, (ast.For, ast.AsyncFor)):
            target(n.target, "set")
        elif isinstance(n, (ast.With, ast.AsyncWith)):
            for it in n.items:
                if it.optional_vars is not None:
                    target(it.optional_vars, "set")
        elif isinstance(n, ast.Call):
            fn = n.func
            if isinstance(fn, ast.Attribute) and fn.attr in MUTATORS:
                out.append(site(f, fn.value, "call:" + fn.attr, module_names))
            elif isinstance(fn, ast.Name) and fn.id in ("setattr", "delattr"):
                if not n.args:
                    raise Unclassified(f"{fn.id}() in {f.name}")
                out.append(site(f, n.args[0], "call:" + fn.id, module_names))
            elif isinstance(fn, ast.Name) and fn.id in ("globals", "vars", "locals", "exec", "eval"):
                raise Unclassified(f"{fn.id}() in {f.name}")
    return out


def describe(f, e, depth=0):
    """where a value handed to Connection(...) / response_writer comes from"""
    if isinstance(e, ast.Constant):
        return "const"
    if isinstance(e, ast.Attribute) and isinstance(e.value, ast.Name) and e.value.id == "self":
        return "self." + e.attr
    if isinstance(e, ast.Call):
        return "fresh:" + src(e.func)
    if isinstance(e, ast.Lambda):
        b = e.body
        if isinstance(b, ast.Call) and isinstance(b.func, ast.Attribute):
            return "lambda:" + b.func.attr + "@" + describe(f, b.func.value, depth + 1)
        return "lambda:?" + src(b)[:40]
    if isinstance(e, ast.Name) and depth < 3:
        owner = f.lookup(e.id)
        if owner is None:
            return "free:" + e.id
        if e.id in owner.params and e.id not in owner.bind:
            return "param:" + e.id
        vals = owner.bind.get(e.id, [])
        if len(vals) == 1 and isinstance(vals[0], (ast.Call, ast.Await)):
            v = vals[0].value if isinstance(vals[0], ast.Await) else vals[0]
            if isinstance(v, ast.Call):
                return "fresh:" + src(v.func)
        return "local:" + e.id + "#" + str(len(vals))
    return "expr:" + src(e)[:40]


BACKEND_CLASSES = ("AbstractPathIO", "PathIO", "AsyncPathIO", "MemoryPathIO")


def backend_facts(src_dir):
    """pathio.py: one backend STATE per server, one backend INSTANCE per session (PathIONursery), and the instance
    keeps nothing but what __init__ gave it: (nursery_fresh, nursery self writes, [(Class.method, attr)] written outside
    __init__, class-level mutables)"""
    path = Path(src_dir) / "pathio.py"
    tree = ast.parse(path.read_text())
    classes = {n.name: n for n in tree.body if isinstance(n, ast.ClassDef)}
    for cn in ("PathIONursery",) + BACKEND_CLASSES:
        if cn not in classes:
            raise Unclassified(f"pathio.py: class {cn} not found")
    # -- the nursery
    call = [m for m in classes["PathIONursery"].body if isinstance(m, FN) and m.name == "__call__"]
    if len(call) != 1 or not call[0].args.args or call[0].args.args[0].arg != "self":
        raise Unclassified("PathIONursery.__call__ not found")
    call = call[0]
    made, returned, writes = [], [], []
    for n in ast.walk(call):
        if isinstance(n, FN) and n is not call:
            raise Unclassified("nested function in PathIONursery.__call__")
        if isinstance(n, ast.Assign):
            for t in n.targets:
                if isinstance(t, ast.Name):
                    v = n.value
                    fresh = (
                        isinstance(v, ast.Call) and isinstance(v.func, ast.Attribute) and v.func.attr == "factory"
                        and isinstance(v.func.value, ast.Name) and v.func.value.id == "self"
                    )
                    made.append((t.id, fresh))
                elif isinstance(t, ast.Attribute) and isinstance(t.value, ast.Name) and t.value.id == "self":
                    writes.append(t.attr)
                else:
                    raise Unclassified(f"PathIONursery.__call__: assignment to {src(t)}")
        elif isinstance(n, (ast.AugAssign, ast.AnnAssign, ast.Delete, ast.NamedExpr, ast.Global, ast.Nonlocal)):
            raise Unclassified(f"PathIONursery.__call__: {type(n).__name__}")
        elif isinstance(n, ast.Call) and isinstance(n.func, ast.Name) and n.func.id in ("setattr", "delattr", "vars", "globals"):
            raise Unclassified(f"PathIONursery.__call__: {n.func.id}()")
        elif isinstance(n, ast.Call) and isinstance(n.func, ast.Attribute) and n.func.attr in MUTATORS:
            raise Unclassified(f"PathIONursery.__call__: mutating call {src(n.func)}")
        elif isinstance(n, ast.Return):
            returned.append(n.value.id if isinstance(n.value, ast.Name) else "?" + src(n.value)[:30] if n.value is not None else "?None")
    fresh = len(made) == 1 and made[0][1] and returned == [made[0][0]]
    # -- the backends: attributes of the instance written outside __init__, class-level mutables
    self_writes, class_state = [], []
    for cn in BACKEND_CLASSES:
        for st in classes[cn].body:
            if isinstance(st, (ast.Assign, ast.AnnAssign)):
                v = st.value
                is_type = isinstance(v, ast.Call) and src(v.func) in ("collections.namedtuple", "namedtuple")
                if v is not None and not isinstance(v, ast.Constant) and not is_type and not (
                    isinstance(v, ast.Tuple) and all(isinstance(e, ast.Constant) for e in v.elts)
                ):
                    class_state.append(cn + "." + src(st.targets[0] if isinstance(st, ast.Assign) else st.target))
            if not isinstance(st, FN) or st.name == "__init__":
                continue
            params = [a.arg for a in st.args.posonlyargs + st.args.args]
            if not params or params[0] != "self":
                continue  # staticmethod / classmethod-free module: nothing named self to write to

            def walk(n, shadowed):
                for c in ast.iter_child_nodes(n):
                    sh = shadowed
                    if isinstance(c, FN) or isinstance(c, ast.Lambda):
                        a = c.args
                        if "self" in [x.arg for x in a.posonlyargs + a.args + a.kwonlyargs]:
                            sh = True  # another object's self (nested Lister)
                    if not sh:
                        targets = []
                        if isinstance(c, ast.Assign):
                            targets = c.targets
                        elif isinstance(c, (ast.AugAssign, ast.AnnAssign)):
                            targets = [c.target]
                        elif isinstance(c, ast.Delete):
                            targets = c.targets
                        for t in targets:
                            for x in ast.walk(t):
                                if isinstance(x, ast.Attribute) and isinstance(x.value, ast.Name) and x.value.id == "self" and isinstance(x.ctx, (ast.Store, ast.Del)):
                                    self_writes.append((cn + "." + st.name, x.attr))
                        if isinstance(c, ast.Call) and isinstance(c.func, ast.Name) and c.func.id in ("setattr", "delattr"):
                            if c.args and isinstance(c.args[0], ast.Name) and c.args[0].id == "self":
                                self_writes.append((cn + "." + st.name, "<setattr>"))
                        if isinstance(c, ast.Call) and isinstance(c.func, ast.Attribute) and c.func.attr == "__dict__":
                            raise Unclassified(f"{cn}.{st.name}: __dict__ call")
                    walk(c, sh)

            walk(st, False)
    return fresh, sorted(set(writes)), self_writes, class_state


def factory_facts(src_dir, server_tree):
    """Per-connection objects that are NOT built in server.py: the values stored in a stream's `throttles` dictionary (the
    `throttles=` keyword of a constructor call, `<x>.throttles.update(...)`).  A value that is a plain reference is a shared
    object (must be a declared one); a value that is a CALL `<recv>.m(...)` is a factory: every class of common.py that defines
    `m` must return a NEWLY CONSTRUCTED object on every path - `return C(...)` with C a class of common.py (or `cls`), each
    argument a constant, a parameter / attribute chain of self (configuration data), a constructor call or again a factory
    call; `return <local>` where the local is bound once to such a call.  `return self`, `return self.x`, a cached object,
    a conditional expression: "alias:<text>".  Found by position (what is stored under `throttles`), not by method name.
    Returns (shared refs, [method names], [(Class, method, verdict)])"""
    refs, calls = [], []
    for n in ast.walk(server_tree):
        if not isinstance(n, ast.Call):
            continue
        vals = []
        for kw in n.keywords:
            if kw.arg == "throttles":
                v = kw.value
                if isinstance(v, ast.Call) and isinstance(v.func, ast.Name) and v.func.id == "dict" and not v.args:
                    vals += [k.value for k in v.keywords]
                elif isinstance(v, ast.Dict):
                    vals += list(v.values)
                elif isinstance(v, ast.Attribute) and v.attr == "throttles" and isinstance(chain(v)[0], ast.Name) and chain(v)[0].id == "connection":
                    pass  # the session's OWN dictionary handed to its data connection
                else:
                    raise Unclassified(f"throttles={src(v)[:60]}: not a literal dictionary")
        if isinstance(n.func, ast.Attribute) and n.func.attr == "update" and isinstance(n.func.value, ast.Attribute) and n.func.value.attr == "throttles":
            if n.args or any(k.arg is None for k in n.keywords):
                raise Unclassified(f"{src(n)[:60]}: throttles.update with positional / ** arguments")
            vals += [k.value for k in n.keywords]
        for v in vals:
            if isinstance(v, ast.Call):
                if not isinstance(v.func, ast.Attribute):
                    raise Unclassified(f"throttle built by {src(v)[:60]}")
                calls.append(v.func.attr)
            else:
                refs.append(src(v))
    if not calls:
        raise Unclassified("no per-connection throttle factory call found in server.py")
    ctree = ast.parse((Path(src_dir) / "common.py").read_text())
    cclasses = {n.name: n for n in ctree.body if isinstance(n, ast.ClassDef)}
    todo, done, out = list(dict.fromkeys(calls)), set(), []

    def verdict(cn, m, e, depth=0):
        """is expression e a newly constructed object?"""
        if depth > 6:
            return "alias:<deep>"
        if isinstance(e, ast.Call):
            f = e.func
            ctor = isinstance(f, ast.Name) and (f.id in cclasses or f.id == "cls")
            fact = isinstance(f, ast.Attribute)
            if not (ctor or fact):
                return "alias:" + src(e)[:40]
            if fact:
                if f.attr not in done and f.attr not in todo:
                    todo.append(f.attr)
                return "fresh"  # judged where the method is defined
            for a in list(e.args) + [k.value for k in e.keywords]:
                if isinstance(a, ast.Call):
                    r = verdict(cn, m, a, depth + 1)
                    if r != "fresh":
                        return r
                elif isinstance(a, ast.Starred) or not isinstance(a, (ast.Constant, ast.Name, ast.Attribute)):
                    return "alias:arg " + src(a)[:40]
            return "fresh"
        if isinstance(e, ast.Name) and e.id not in ("self", "cls"):
            binds = [st.value for st in ast.walk(m) if isinstance(st, ast.Assign) and any(isinstance(t, ast.Name) and t.id == e.id for t in st.targets)]
            params = [a.arg for a in m.args.posonlyargs + m.args.args + m.args.kwonlyargs]
            if len(binds) == 1 and e.id not in params:
                return verdict(cn, m, binds[0], depth + 1)
        return "alias:" + (src(e)[:40] if e is not None else "None")

    while todo:
        name = todo.pop(0)
        done.add(name)
        defs = [(cn, m) for cn, c in cclasses.items() for m in c.body if isinstance(m, FN) and m.name == name]
        if not defs:
            raise Unclassified(f"common.py: no class defines the factory method {name}")
        for cn, m in defs:
            rets = [r for r in ast.walk(m) if isinstance(r, ast.Return)]
            if any(isinstance(x, (ast.Yield, ast.YieldFrom, ast.Global, ast.Nonlocal)) for x in ast.walk(m)) or not rets:
                out.append((cn, name, "alias:<no plain return>"))
                continue
            vs = [verdict(cn, m, r.value) for r in rets]
            bad = [v for v in vs if v != "fresh"]
            out.append((cn, name, bad[0] if bad else "fresh"))
    return sorted(set(refs)), sorted(set(calls)), sorted(out)


def generate(src_dir):
    path = Path(src_dir) / "server.py"
    tree = ast.parse(path.read_text())
    module_names = set()
    for st in tree.body:
        if isinstance(st, (ast.Assign, ast.AnnAssign, ast.AugAssign)):
            for t in st.targets if isinstance(st, ast.Assign) else [st.target]:
                for n in ast.walk(t):
                    if isinstance(n, ast.Name):
                        module_names.add(n.id)
    classes = {n.name: n for n in tree.body if isinstance(n, ast.ClassDef)}
    if "Server" not in classes or "Connection" not in classes:
        raise Unclassified("Server / Connection class not found")
    fns = []
    for m in classes["Server"].body:
        if isinstance(m, FN):
            collect(m.name, m, None, fns)
        elif isinstance(m, ast.ClassDef):
            raise Unclassified("class nested in Server")
    for cn in SCOPES:
        if cn not in classes:
            raise Unclassified(f"class {cn} not found")
        for m in classes[cn].body:
            if isinstance(m, FN) and m.name != "__init__":
                collect(cn + "." + m.name, m, None, fns)
    for st in tree.body:
        if isinstance(st, FN):
            collect(st.name, st, None, fns)
    byname = {f.name: f for f in fns}
    SERVER_METHODS.clear()
    SERVER_METHODS.update(m.name for m in classes["Server"].body if isinstance(m, FN))

    # class-level mutable attributes of Server / Connection (shared between all instances / sessions)
    class_state = []
    for cn in ("Server", "Connection"):
        for st in classes[cn].body:
            if isinstance(st, (ast.Assign, ast.AnnAssign)):
                v = st.value
                if v is not None and not isinstance(v, ast.Constant) and not (
                    isinstance(v, ast.Tuple) and all(isinstance(e, ast.Constant) for e in v.elts)
                ):
                    class_state.append(cn + "." + src(st.targets[0] if isinstance(st, ast.Assign) else st.target))

    sites, rebound, registry, globs, ctor = [], [], [], [], []
    for f in fns:
        sites.extend(sites_of(f, module_names))
        if "connection" in f.bind:
            rebound.append(f.name)
        for g in f.globals:
            globs.append(f.name + ":" + g)
        for n in f.own():
            if isinstance(n, ast.Attribute) and n.attr == "connections" and isinstance(n.value, ast.Name) and n.value.id in ("self", "cls"):
                if f.name not in registry:
                    registry.append(f.name)
            if isinstance(n, ast.Call) and isinstance(n.func, ast.Name) and n.func.id == "Connection":
                ctor.append(f.name)
            if isinstance(n, ast.Call) and isinstance(n.func, ast.Name) and n.func.id == "getattr":
                if n.args and isinstance(n.args[0], ast.Name) and n.args[0].id in ("self", "cls") and not (len(n.args) > 1 and isinstance(n.args[1], ast.Constant)):
                    raise Unclassified(f"dynamic getattr on the server object in {f.name}")
    # Connection(...) in the rest of the module (outside the scanned functions)?
    n_ctor_module = sum(
        1 for n in ast.walk(tree) if isinstance(n, ast.Call) and isinstance(n.func, ast.Name) and n.func.id == "Connection"
    )

    # the dispatcher's wiring
    d = byname.get("dispatcher")
    if d is None:
        raise Unclassified("no dispatcher")
    conn_kw, path_io_fresh, writer_args, disp_calls_own = [], False, [], True
    ctor_calls = [n for n in d.own() if isinstance(n, ast.Call) and isinstance(n.func, ast.Name) and n.func.id == "Connection"]
    if len(ctor_calls) == 1:
        c = ctor_calls[0]
        if c.args or any(k.arg is None for k in c.keywords):
            raise Unclassified("Connection(...) with positional / ** arguments")
        conn_kw = [(k.arg, describe(d, k.value)) for k in c.keywords]
    ctor_assigned = any(
        isinstance(n, ast.Assign) and len(n.targets) == 1 and isinstance(n.targets[0], ast.Name) and n.targets[0].id == "connection"
        and n.value in ctor_calls
        for n in d.own()
    )
    n_conn_bindings = len(d.bind.get("connection", []))
    # the local the looked-up handler is bound to (`f = self.commands_mapping.get(cmd)`), whatever it is called
    hvars = {
        n.targets[0].id for n in d.own()
        if isinstance(n, ast.Assign) and len(n.targets) == 1 and isinstance(n.targets[0], ast.Name)
        and isinstance(n.value, ast.Call) and ast.unparse(n.value.func) in ("self.commands_mapping.get", "self.commands_mapping.__getitem__")
    }
    hvar = hvars.pop() if len(hvars) == 1 else "f"
    for n in d.own():
        if isinstance(n, ast.Assign) and len(n.targets) == 1:
            t = n.targets[0]
            if isinstance(t, ast.Attribute) and t.attr == "path_io" and isinstance(t.value, ast.Name) and t.value.id == "connection":
                v = n.value
                path_io_fresh = (
                    isinstance(v, ast.Call) and isinstance(v.func, ast.Attribute) and v.func.attr == "path_io_factory"
                    and isinstance(v.func.value, ast.Name) and v.func.value.id == "self"
                    and any(k.arg == "connection" and isinstance(k.value, ast.Name) and k.value.id == "connection" for k in v.keywords)
                )
        if isinstance(n, ast.Call) and isinstance(n.func, ast.Attribute) and isinstance(n.func.value, ast.Name) and n.func.value.id == "self":
            if n.func.attr == "response_writer":
                writer_args = [describe(d, a) for a in n.args]
            # every handler-like call self.<m>(X, ...) whose first argument is a Connection must pass OUR connection
            if n.func.attr in ("greeting",):
                if not (n.args and isinstance(n.args[0], ast.Name) and n.args[0].id == "connection"):
                    disp_calls_own = False
        if isinstance(n, ast.Call) and isinstance(n.func, ast.Name) and n.func.id == hvar:
            if not (len(n.args) == 2 and isinstance(n.args[0], ast.Name) and n.args[0].id == "connection"):
                disp_calls_own = False
    calls_f = [n for n in d.own() if isinstance(n, ast.Call) and isinstance(n.func, ast.Name) and n.func.id == hvar]
    if len(calls_f) != 1:
        raise Unclassified("dispatcher does not call the looked-up handler exactly once as f(connection, rest)")

    # passive accept handlers
    callbacks = []
    for owner in fns:
        for n in owner.own():
            if isinstance(n, ast.Call) and isinstance(n.func, ast.Attribute) and n.func.attr == "_start_passive_server":
                if len(n.args) != 2:
                    raise Unclassified(f"_start_passive_server call shape in {owner.name}")
                a0, a1 = n.args
                own_conn = isinstance(a0, ast.Name) and a0.id == "connection" and "connection" in owner.params and "connection" not in owner.bind
                nested = isinstance(a1, ast.Name) and a1.id in owner.children
                if nested:
                    # shape (a): a nested function of the command handler closing over the handler's own `connection`
                    takes_conn = "connection" in byname[owner.name + "." + a1.id].params
                    callbacks.append((owner.name, owner.name + "." + a1.id, own_conn and not takes_conn))
                    continue
                # shape (b): a local bound once to self.<helper>(connection); the helper has a parameter `connection` (never
                # rebound), one nested function (not taking `connection`) and returns exactly that function
                qual, ok = src(a1), False
                vals = owner.bind.get(a1.id, []) if isinstance(a1, ast.Name) else []
                if len(vals) == 1 and isinstance(vals[0], ast.Call):
                    c = vals[0]
                    fnx = c.func
                    helper = None
                    if isinstance(fnx, ast.Attribute) and isinstance(fnx.value, ast.Name) and fnx.value.id in ("self", "cls"):
                        helper = byname.get(fnx.attr)
                    if (
                        helper is not None and len(c.args) == 1 and not c.keywords
                        and isinstance(c.args[0], ast.Name) and c.args[0].id == "connection"
                        and "connection" in helper.params and "connection" not in helper.bind and len(helper.children) == 1
                    ):
                        inner = byname[helper.name + "." + helper.children[0]]
                        rets = [r for r in helper.own() if isinstance(r, ast.Return)]
                        ok = (
                            "connection" not in inner.params and bool(rets)
                            and all(isinstance(r.value, ast.Name) and r.value.id == helper.children[0] for r in rets)
                            and helper.children[0] not in helper.bind
                        )
                        qual = inner.name
                callbacks.append((owner.name, qual, own_conn and ok))
    sp = byname.get("_start_passive_server")
    passes = False
    if sp is not None and len(sp.params) == 3:
        cb = sp.params[2]
        starts = [n for n in sp.own() if isinstance(n, ast.Call) and src(n.func) == "asyncio.start_server"]
        passes = bool(starts) and all(n.args and isinstance(n.args[0], ast.Name) and n.args[0].id == cb for n in starts) and cb not in sp.bind

    lines = [emit.HEADER.format(src=str(path))]
    lines.append("From Coq Require Import String.\nFrom Verif Require Import Lib.IsoFacts.\nLocal Open Scope string_scope.\n")
    lines.append("Definition translator_ok_isolation : bool := true.\n")
    lines.append("Definition iso_functions : list string := " + slist([f.name for f in fns]) + ".\n")
    lines.append("Definition iso_with_connection : list string := " + slist([f.name for f in fns if f.lookup("connection") is not None]) + ".\n")
    lines.append("Definition iso_sites : list wsite := [\n  " + ";\n  ".join(
        "{| ws_fn := %s; ws_base := %s; ws_path := %s; ws_kind := %s; ws_roots := %s |}" % (S(a), S(b), S(c), S(k), slist(r))
        for a, b, c, k, r in sites) + "\n].\n")
    lines.append("Definition iso_conn_rebound : list string := " + slist(rebound) + ".\n")
    lines.append("Definition iso_registry_users : list string := " + slist(registry) + ".\n")
    lines.append("Definition iso_globals : list string := " + slist(globs) + ".\n")
    lines.append("Definition iso_class_state : list string := " + slist(class_state) + ".\n")
    lines.append("Definition iso_conn_ctor : list string := " + slist(ctor) + ".\n")
    lines.append("Definition iso_conn_ctor_total : nat := %d.\n" % n_ctor_module)
    lines.append("Definition iso_conn_ctor_assigned_once : bool := " + emit.boolean(ctor_assigned and n_conn_bindings == 1) + ".\n")
    lines.append("Definition iso_conn_kw : list (string * string) := [" + "; ".join(f"({S(k)}, {S(v)})" for k, v in conn_kw) + "].\n")
    lines.append("Definition iso_path_io_fresh : bool := " + emit.boolean(path_io_fresh) + ".\n")
    lines.append("Definition iso_response_writer_args : list string := " + slist(writer_args) + ".\n")
    lines.append("Definition iso_dispatch_own_connection : bool := " + emit.boolean(disp_calls_own) + ".\n")
    lines.append("Definition iso_passive_callbacks : list (string * string * bool) := [" + "; ".join(
        f"({S(o)}, {S(c)}, {emit.boolean(b)})" for o, c, b in callbacks) + "].\n")
    lines.append("Definition iso_start_passive_passes_callback : bool := " + emit.boolean(passes) + ".\n")
    nfresh, nwrites, bwrites, bclass = backend_facts(src_dir)
    lines.append("(* pathio.py: PathIONursery and the shipped backends *)")
    lines.append("Definition iso_nursery_fresh : bool := " + emit.boolean(nfresh) + ".\n")
    lines.append("Definition iso_nursery_self_writes : list string := " + slist(nwrites) + ".\n")
    lines.append("Definition iso_backend_self_writes : list (string * string) := [" + "; ".join(f"({S(a)}, {S(b)})" for a, b in bwrites) + "].\n")
    lines.append("Definition iso_backend_class_state : list string := " + slist(bclass) + ".\n")
    trefs, tcalls, tfacts = factory_facts(src_dir, tree)
    lines.append("(* common.py: the factories of the per-connection objects stored under a stream's `throttles` *)")
    lines.append("Definition iso_throttle_shared_refs : list string := " + slist(trefs) + ".\n")
    lines.append("Definition iso_throttle_factory_calls : list string := " + slist(tcalls) + ".\n")
    lines.append("Definition iso_factories : list (string * string * string) := [" + "; ".join(f"({S(a)}, {S(b)}, {S(c)})" for a, b, c in tfacts) + "].\n")
    return "\n".join(lines)
