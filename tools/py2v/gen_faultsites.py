"""Gen/Faultsites.v: where a backend failure can arise and what it turns into (C13).

From pathio.py: the decorator stack (outermost first) of every backend operation of the three shipped
classes (the list step is `Lister.__anext__` of the class nested in `list`), the except ladder of
`universal_exception`, what `AsyncPathIOContext` calls on enter / exit and which backend method each
of its bound file methods reaches.  From server.py: the calls the transfer workers make on the file
context inside their `async with`, in source order.

Pure ast walk, no execution of repo code; fail closed (Unclassified)."""
import ast
from pathlib import Path

from . import emit
from .gen_dispatch import S, Unclassified, slist, src

CLASSES = ("PathIO", "AsyncPathIO", "MemoryPathIO")
# model name -> method name in the classes
OPS = [
    ("exists", "exists"), ("is_dir", "is_dir"), ("is_file", "is_file"), ("mkdir", "mkdir"), ("rmdir", "rmdir"),
    ("unlink", "unlink"), ("stat", "stat"), ("open", "_open"), ("seek", "seek"), ("write", "write"), ("read", "read"),
    ("close", "close"), ("rename", "rename"),
]


def deco_name(d):
    if isinstance(d, ast.Name):
        return d.id
    if isinstance(d, ast.Attribute):
        return src(d)
    if isinstance(d, ast.Call):
        return deco_name(d.func)
    raise Unclassified(f"decorator {src(d)}")


def funcs_of(cls):
    return {n.name: n for n in cls.body if isinstance(n, (ast.FunctionDef, ast.AsyncFunctionDef))}


def lister_stack(list_fn, cname):
    """`def list(self, path): class Lister(...): ... __anext__ ...; return Lister(...)`"""
    if isinstance(list_fn, ast.AsyncFunctionDef) or list_fn.decorator_list:
        raise Unclassified(f"{cname}.list is not a plain undecorated def")
    nested = [n for n in list_fn.body if isinstance(n, ast.ClassDef)]
    if len(nested) != 1:
        raise Unclassified(f"{cname}.list: expected one nested lister class")
    rets = [n for n in ast.walk(list_fn) if isinstance(n, ast.Return) and n.value is not None and not _inside(nested[0], n)]
    if len(rets) != 1 or not (isinstance(rets[0].value, ast.Call) and isinstance(rets[0].value.func, ast.Name) and rets[0].value.func.id == nested[0].name):
        raise Unclassified(f"{cname}.list does not return an instance of its nested lister")
    # list() itself must not touch anything that can fail before the first step
    for st in list_fn.body:
        if st is nested[0] or st is rets[0]:
            continue
        if isinstance(st, ast.Expr) and isinstance(st.value, ast.Constant):
            continue
        raise Unclassified(f"{cname}.list: statement outside the lister: {src(st)[:60]}")
    fs = funcs_of(nested[0])
    if "__anext__" not in fs:
        raise Unclassified(f"{cname}.list: lister without __anext__")
    return [deco_name(d) for d in fs["__anext__"].decorator_list]


def _inside(outer, node):
    return any(n is node for n in ast.walk(outer))


def universal_exception_ladder(fn):
    """[(classes caught, action)] of the try in the wrapper"""
    wrappers = [n for n in fn.body if isinstance(n, ast.AsyncFunctionDef)]
    if len(wrappers) != 1:
        raise Unclassified("universal_exception: expected one async wrapper")
    w = wrappers[0]
    if len(w.body) != 1 or not isinstance(w.body[0], ast.Try):
        raise Unclassified("universal_exception: wrapper body is not a single try")
    t = w.body[0]
    if t.finalbody or t.orelse:
        raise Unclassified("universal_exception: finally/else")
    if not (len(t.body) == 1 and isinstance(t.body[0], ast.Return) and isinstance(t.body[0].value, ast.Await)):
        raise Unclassified("universal_exception: try body is not `return await coro(...)`")
    out = []
    for h in t.handlers:
        if h.type is None:
            classes = ["BaseException"]
        elif isinstance(h.type, ast.Tuple):
            classes = [src(e) for e in h.type.elts]
        else:
            classes = [src(h.type)]
        if len(h.body) != 1 or not isinstance(h.body[0], ast.Raise):
            raise Unclassified(f"universal_exception: handler body {src(h.body[0])[:60]}")
        r = h.body[0]
        if r.exc is None:
            action = "raise"
        elif isinstance(r.exc, ast.Call):
            action = "raise:" + src(r.exc.func)
        else:
            raise Unclassified(f"universal_exception: raise {src(r.exc)}")
        out.append((classes, action))
    return out


def filectx_facts(cls):
    fs = funcs_of(cls)
    for need in ("__aenter__", "__aexit__", "iter_by_block"):
        if need not in fs:
            raise Unclassified(f"AsyncPathIOContext.{need} missing")
    enter_calls, bound = [], []
    for n in ast.walk(fs["__aenter__"]):
        if isinstance(n, ast.Await) and isinstance(n.value, ast.Call):
            f = n.value.func
            if isinstance(f, ast.Attribute) and src(f.value) == "self.pathio":
                enter_calls.append(f.attr)
            else:
                raise Unclassified(f"AsyncPathIOContext.__aenter__ awaits {src(f)}")
        if isinstance(n, ast.Assign) and len(n.targets) == 1 and isinstance(n.targets[0], ast.Attribute):
            v = n.value
            if isinstance(v, ast.Call) and src(v.func) == "functools.partial" and v.args and src(v.args[0]).startswith("self.pathio."):
                bound.append((n.targets[0].attr, src(v.args[0])[len("self.pathio."):]))
    exit_calls = []
    for n in ast.walk(fs["__aexit__"]):
        if isinstance(n, ast.Await) and isinstance(n.value, ast.Call):
            f = n.value.func
            if isinstance(f, ast.Attribute) and src(f.value) == "self":
                exit_calls.append(f.attr)
            else:
                raise Unclassified(f"AsyncPathIOContext.__aexit__ awaits {src(f)}")
    # iter_by_block -> which bound method
    ib = [n for n in ast.walk(fs["iter_by_block"]) if isinstance(n, ast.Call) and isinstance(n.func, ast.Attribute) and src(n.func.value) == "self"]
    if len(ib) != 1:
        raise Unclassified("AsyncPathIOContext.iter_by_block: expected one self.<m>(...) call")
    bound.append(("iter_by_block", dict(bound).get(ib[0].func.attr, ib[0].func.attr)))
    return enter_calls, exit_calls, bound


def worker_file_calls(server_tree):
    """worker -> (file variable, [methods called on it inside the async with, source order], open call precedes the with)"""
    out = []
    srv = [n for n in server_tree.body if isinstance(n, ast.ClassDef) and n.name == "Server"][0]
    for m in srv.body:
        if not isinstance(m, ast.AsyncFunctionDef):
            continue
        for wk in [n for n in m.body if isinstance(n, ast.AsyncFunctionDef) and n.name.endswith("_worker")]:
            fvars = []
            for st in ast.walk(wk):
                if isinstance(st, ast.Assign) and isinstance(st.value, ast.Call) and src(st.value.func) == "connection.path_io.open":
                    if len(st.targets) != 1 or not isinstance(st.targets[0], ast.Name):
                        raise Unclassified(f"{wk.name}: open() result bound to {src(st.targets[0])}")
                    fvars.append(st.targets[0].id)
                elif isinstance(st, ast.Call) and src(st.func) == "connection.path_io.open":
                    pass
            opens = [n for n in ast.walk(wk) if isinstance(n, ast.Call) and src(n.func) == "connection.path_io.open"]
            if len(opens) != len(fvars):
                raise Unclassified(f"{wk.name}: a path_io.open() call is not a plain assignment")
            calls = []
            for v in fvars:
                withs = [n for n in ast.walk(wk) if isinstance(n, ast.AsyncWith) and any(isinstance(i.context_expr, ast.Name) and i.context_expr.id == v for i in n.items)]
                if len(withs) != 1:
                    raise Unclassified(f"{wk.name}: {v} is not entered by exactly one async with")
                for n in ast.walk(wk):
                    if isinstance(n, ast.Attribute) and isinstance(n.value, ast.Name) and n.value.id == v:
                        if not _inside(withs[0], n):
                            raise Unclassified(f"{wk.name}: {v}.{n.attr} used outside its async with")
                seq = []
                for n in _ordered(withs[0]):
                    if isinstance(n, ast.Call) and isinstance(n.func, ast.Attribute) and isinstance(n.func.value, ast.Name) and n.func.value.id == v:
                        seq.append(n.func.attr)
                calls.append((v, seq))
            out.append((wk.name, calls))
    return out


def worker_contexts(server_tree):
    """worker -> items of its `async with` statements (outermost first, flattened), each item NORMALISED by what
    the variable is bound to in the worker: "stream" (= connection.data_connection), "file" (= connection.path_io.open(..)),
    "?<source>" for anything else.  Robust to renaming of locals and to `async with a, b` vs nested withs."""
    out = []
    srv = [n for n in server_tree.body if isinstance(n, ast.ClassDef) and n.name == "Server"][0]
    for m in srv.body:
        if not isinstance(m, ast.AsyncFunctionDef):
            continue
        for wk in [n for n in m.body if isinstance(n, ast.AsyncFunctionDef) and n.name.endswith("_worker")]:
            bind = {}
            for st in ast.walk(wk):
                if isinstance(st, ast.Assign) and len(st.targets) == 1 and isinstance(st.targets[0], ast.Name):
                    v = st.targets[0].id
                    if src(st.value) == "connection.data_connection":
                        kind = "stream"
                    elif isinstance(st.value, ast.Call) and src(st.value.func) == "connection.path_io.open":
                        kind = "file"
                    else:
                        kind = None
                    if v in bind and bind[v] != kind:
                        bind[v] = "?rebound:" + v
                    else:
                        bind[v] = kind
            withs = [n for n in _ordered(wk) if isinstance(n, ast.AsyncWith)]
            # every further `async with` must be the sole statement nested in the previous one (one scope)
            for a, b in zip(withs, withs[1:]):
                if not (len(a.body) == 1 and a.body[0] is b):
                    raise Unclassified(f"{wk.name}: async with statements are not one nested scope")
            if withs and not any(st is withs[0] for st in wk.body):
                raise Unclassified(f"{wk.name}: the async with is not a top-level statement of the worker")
            items = []
            for w in withs:
                for it in w.items:
                    e = it.context_expr
                    k = bind.get(e.id) if isinstance(e, ast.Name) else None
                    items.append(k if k else "?" + src(e))
            out.append((wk.name, items))
    return out


def local_catch_sites(server_tree):
    """functions of Server (methods, nested workers) that reach the backend - a `connection.path_io.<op>` call, a
    call on a file context, or a `self.build_*` helper - AND contain a construct that can stop an exception on its
    way to the dispatcher: try/except, try/finally, a (sync) `with` (contextlib.suppress ...).  `async with` is the
    workers' scope and is modelled.  -> ["<function>:<construct>@<line-free description>"]"""
    out = []
    srv = [n for n in server_tree.body if isinstance(n, ast.ClassDef) and n.name == "Server"][0]

    def own(fn):
        # nodes of fn excluding nested function definitions
        todo = list(fn.body)
        while todo:
            n = todo.pop()
            if isinstance(n, (ast.FunctionDef, ast.AsyncFunctionDef, ast.Lambda)):
                continue
            yield n
            for c in ast.iter_child_nodes(n):
                if not isinstance(c, (ast.FunctionDef, ast.AsyncFunctionDef, ast.Lambda)):
                    todo.append(c)

    def reaches(fn):
        for n in own(fn):
            if isinstance(n, ast.Attribute) and src(n) == "connection.path_io":
                return True
            if isinstance(n, ast.Call) and isinstance(n.func, ast.Attribute) and src(n.func).startswith("self.build_"):
                return True
        return False

    def describe_try(n):
        cls = []
        for h in n.handlers:
            if h.type is None:
                cls.append("BaseException")
            elif isinstance(h.type, ast.Tuple):
                cls.extend(src(e) for e in h.type.elts)
            else:
                cls.append(src(h.type))
        return ("try;finally" if n.finalbody else "try"), cls

    def visit(fn, prefix, force):
        name = prefix + fn.name
        if force or reaches(fn):
            for n in own(fn):
                if isinstance(n, ast.Try) or n.__class__.__name__ == "TryStar":
                    out.append((name,) + describe_try(n))
                elif isinstance(n, ast.With):
                    out.append((name, "with", [src(i.context_expr)[:60] for i in n.items]))
        for n in fn.body:
            if isinstance(n, (ast.FunctionDef, ast.AsyncFunctionDef)):
                visit(n, name + ".", force)

    for m in srv.body:
        # the dispatcher's own try blocks are facts of Gen.Dispatch (d_task_except, d_outer_except, d_finally)
        if isinstance(m, (ast.FunctionDef, ast.AsyncFunctionDef)) and m.name != "dispatcher":
            visit(m, "", False)
    # the decorators every handler / worker runs under: nothing in them may stop the exception either
    for top in server_tree.body:
        if isinstance(top, (ast.FunctionDef, ast.AsyncFunctionDef)) and top.name == "worker":
            visit(top, "", True)
        if isinstance(top, ast.ClassDef) and top.name in ("ConnectionConditions", "PathConditions", "PathPermissions"):
            for m in top.body:
                if isinstance(m, (ast.FunctionDef, ast.AsyncFunctionDef)):
                    visit(m, top.name + ".", True)
    return sorted(out)


def dispatcher_try_per_task(server_tree):
    """True iff the dispatcher handles the finished tasks one by one, each under its OWN try:
    `for task in done:` whose first statement is `try: result = task.result()` with an `except errors.PathIOError`
    clause - so that one task's exception cannot drop the results of the others that finished in the same wake-up"""
    srv = [n for n in server_tree.body if isinstance(n, ast.ClassDef) and n.name == "Server"][0]
    disp = [m for m in srv.body if isinstance(m, ast.AsyncFunctionDef) and m.name == "dispatcher"]
    if len(disp) != 1:
        raise Unclassified("Server.dispatcher not found")
    calls = [n for n in ast.walk(disp[0]) if isinstance(n, ast.Call) and isinstance(n.func, ast.Attribute) and n.func.attr == "result"]
    if not calls:
        raise Unclassified("dispatcher: no .result() call")
    ok = False
    for n in ast.walk(disp[0]):
        if isinstance(n, ast.For) and isinstance(n.target, ast.Name) and src(n.iter) == "done" and n.body and isinstance(n.body[0], ast.Try):
            t = n.body[0]
            if (
                len(t.body) == 1
                and isinstance(t.body[0], ast.Assign)
                and src(t.body[0].value) == n.target.id + ".result()"
                and any(h.type is not None and "errors.PathIOError" in src(h.type) for h in t.handlers)
            ):
                ok = True
    # every .result() of the dispatcher must be that one: no second place where task outcomes are collected
    if ok and len(calls) != 1:
        ok = False
    return ok


def pio_clause_payload_free(server_tree):
    """True iff the dispatcher's reaction to a PathIOError does not depend on what the exception object carries: every
    `except ... PathIOError ...` clause of Server.dispatcher either binds no name, or uses the bound name only as a direct
    argument of a `logger.<level>(...)` call.  (PathIOError is public: `reason` is optional and of no fixed shape, a
    backend may raise a subclass with a constructor of its own - a clause that reads `exc.reason`, `exc.args[0]`,
    unpacks or formats it can raise for some backend, and an exception in that clause ends the session.)"""
    srv = [n for n in server_tree.body if isinstance(n, ast.ClassDef) and n.name == "Server"][0]
    disp = [m for m in srv.body if isinstance(m, ast.AsyncFunctionDef) and m.name == "dispatcher"]
    if len(disp) != 1:
        raise Unclassified("Server.dispatcher not found")
    clauses = [h for h in ast.walk(disp[0]) if isinstance(h, ast.ExceptHandler) and h.type is not None and "PathIOError" in src(h.type)]
    if not clauses:
        raise Unclassified("dispatcher: no except clause for PathIOError")
    for h in clauses:
        if h.name is None:
            continue
        allowed = set()
        for stmt in h.body:
            for n in ast.walk(stmt):
                if isinstance(n, ast.Call) and isinstance(n.func, ast.Attribute) and src(n.func.value) == "logger":
                    for a in list(n.args) + [k.value for k in n.keywords]:
                        if isinstance(a, ast.Name) and a.id == h.name:
                            allowed.add(id(a))
        for stmt in h.body:
            for n in ast.walk(stmt):
                if isinstance(n, ast.Name) and n.id == h.name and id(n) not in allowed:
                    return False
    return True


def _ordered(node):
    """ast nodes in source order"""
    nodes = [n for n in ast.walk(node) if hasattr(n, "lineno")]
    return sorted(nodes, key=lambda n: (n.lineno, n.col_offset))


def generate(src_dir):
    src_dir = Path(src_dir)
    ptree = ast.parse((src_dir / "pathio.py").read_text())
    stree = ast.parse((src_dir / "server.py").read_text())
    classes = {n.name: n for n in ptree.body if isinstance(n, ast.ClassDef)}
    funcs = {n.name: n for n in ptree.body if isinstance(n, ast.FunctionDef)}
    for need in CLASSES + ("AsyncPathIOContext", "AbstractPathIO"):
        if need not in classes:
            raise Unclassified(f"class {need} missing from pathio.py")
    if "universal_exception" not in funcs:
        raise Unclassified("universal_exception missing")
    rows = []
    for cname in CLASSES:
        fs = funcs_of(classes[cname])
        entries = []
        for model, meth in OPS:
            if meth not in fs:
                raise Unclassified(f"{cname}.{meth} not defined in the class itself")
            entries.append((model, [deco_name(d) for d in fs[meth].decorator_list]))
        if "list" not in fs:
            raise Unclassified(f"{cname}.list missing")
        entries.append(("list", lister_stack(fs["list"], cname)))
        rows.append((cname, entries))
    # AbstractPathIO.open must only build the context object (no awaiting, no backend call)
    afs = funcs_of(classes["AbstractPathIO"])
    op = afs.get("open")
    if op is None or isinstance(op, ast.AsyncFunctionDef):
        raise Unclassified("AbstractPathIO.open is not a plain def")
    body = [st for st in op.body if not (isinstance(st, ast.Expr) and isinstance(st.value, ast.Constant))]
    open_lazy = len(body) == 1 and isinstance(body[0], ast.Return) and isinstance(body[0].value, ast.Call) and src(body[0].value.func) == "AsyncPathIOContext"
    for cname in CLASSES:
        if "open" in funcs_of(classes[cname]):
            raise Unclassified(f"{cname} overrides open()")
    ladder = universal_exception_ladder(funcs["universal_exception"])
    enter_calls, exit_calls, bound = filectx_facts(classes["AsyncPathIOContext"])
    wcalls = worker_file_calls(stree)
    wctx = worker_contexts(stree)
    catches = local_catch_sites(stree)
    per_task = dispatcher_try_per_task(stree)
    payload_free = pio_clause_payload_free(stree)

    def row(c, es):
        return "(" + S(c) + ", [" + "; ".join("(" + S(m) + ", " + slist(ds) + ")" for m, ds in es) + "])"

    text = emit.HEADER.format(src=str(src_dir / "pathio.py"))
    text += "From Coq Require Import String.\nLocal Open Scope string_scope.\n\n"
    text += "Definition faultsites_ok : bool := true.\n\n"
    text += "(* class -> backend operation -> decorator stack, outermost first; \"open\" is _open, \"list\" is Lister.__anext__ *)\n"
    text += "Definition pathio_wrappers : list (string * list (string * list string)) := [\n  " + ";\n  ".join(row(c, es) for c, es in rows) + "\n].\n\n"
    text += "(* universal_exception: except clauses in order: classes caught -> action *)\n"
    text += "Definition ue_ladder : list (list string * string) := [" + "; ".join("(" + slist(cs) + ", " + S(a) + ")" for cs, a in ladder) + "].\n\n"
    text += "(* AbstractPathIO.open only builds an AsyncPathIOContext (the backend is reached in __aenter__) *)\n"
    text += f"Definition open_is_lazy : bool := {emit.boolean(open_lazy)}.\n"
    text += "Definition filectx_enter : list string := " + slist(enter_calls) + ".\n"
    text += "Definition filectx_exit : list string := " + slist(exit_calls) + ".\n"
    text += "Definition filectx_bound : list (string * string) := [" + "; ".join("(" + S(a) + ", " + S(b) + ")" for a, b in bound) + "].\n\n"
    text += "(* worker -> items of its async-with scope, outermost first, normalised: stream = connection.data_connection, file = path_io.open(..) *)\n"
    text += "Definition worker_ctx : list (string * list string) := [" + "; ".join("(" + S(w) + ", " + slist(items) + ")" for w, items in wctx) + "].\n\n"
    text += "(* functions of Server that reach the backend and contain try / with (something that could stop the exception before the dispatcher) *)\n"
    text += "Definition local_catch_sites : list (string * (string * list string)) := [" + "; ".join("(" + S(f) + ", (" + S(k) + ", " + slist(cs) + "))" for f, k, cs in catches) + "].\n\n"
    text += "(* the dispatcher takes the finished tasks one by one, each `task.result()` under its own try (except errors.PathIOError) *)\n"
    text += f"Definition dispatcher_try_per_task : bool := {emit.boolean(per_task)}.\n\n"
    text += "(* the dispatcher's PathIOError clause(s) never read the exception object (at most hand it to a logger call): the reaction\n"
    text += "   cannot depend on - or fail on - the shape of the PathIOError a backend raises (reason=None, other reason, subclass) *)\n"
    text += f"Definition pio_clause_payload_free : bool := {emit.boolean(payload_free)}.\n\n"
    text += "(* worker -> file context variable -> methods called on it inside its async with, in source order *)\n"
    text += "Definition worker_file_calls : list (string * list (string * list string)) := [\n  " + ";\n  ".join(row(w, cs) for w, cs in wcalls) + "\n].\n"
    return text
