"""Gen/UserMgr.v: suspension points of the accounting code (C10 atomicity fact).

For MemoryUserManager (get_user / authenticate / notify_logout) and AvailableConnections
(locked / acquire / release): is the method a coroutine function, its decorators, and every
suspension construct in its body (`await e`, `async for`, `async with`, `yield`).  The C10 model
runs user() as ONE atomic step; that is sound only if none of these can suspend.

Pure ast walk; fail closed (Unclassified) when a class or method is missing."""
import ast
from pathlib import Path

from . import emit


class Unclassified(Exception):
    pass


def S(s):
    return '"' + s.replace('"', '""') + '"'


def slist(xs):
    return "[" + "; ".join(S(x) for x in xs) + "]"


def suspensions(fn):
    out = []

    def walk(n, top):
        if not top and isinstance(n, (ast.FunctionDef, ast.AsyncFunctionDef, ast.Lambda, ast.ClassDef)):
            return  # nested definitions do not run here
        if isinstance(n, ast.Await):
            out.append("await " + ast.unparse(n.value))
        elif isinstance(n, ast.AsyncFor):
            out.append("async for " + ast.unparse(n.iter))
        elif isinstance(n, ast.AsyncWith):
            out.append("async with " + ", ".join(ast.unparse(i.context_expr) for i in n.items))
        elif isinstance(n, (ast.Yield, ast.YieldFrom)):
            out.append("yield")
        for c in ast.iter_child_nodes(n):
            walk(c, False)

    walk(fn, True)
    return out


def method_facts(cls, names):
    methods = {n.name: n for n in cls.body if isinstance(n, (ast.FunctionDef, ast.AsyncFunctionDef))}
    rows = []
    for name in names:
        fn = methods.get(name)
        if fn is None:
            raise Unclassified(f"{cls.name}.{name} not defined in the class body")
        is_async = isinstance(fn, ast.AsyncFunctionDef)
        decos = [ast.unparse(d) for d in fn.decorator_list]
        rows.append(f"({S(name)}, ({emit.boolean(is_async)}, ({slist(decos)}, {slist(suspensions(fn))})))")
    return "[" + "; ".join(rows) + "]"


def generate(src_dir):
    path = Path(src_dir) / "server.py"
    tree = ast.parse(path.read_text())
    classes = {n.name: n for n in tree.body if isinstance(n, ast.ClassDef)}
    for need in ("MemoryUserManager", "AvailableConnections"):
        if need not in classes:
            raise Unclassified(f"class {need} not found")
    um = classes["MemoryUserManager"]
    ac = classes["AvailableConnections"]
    out = emit.HEADER.format(src=str(path))
    out += "From Coq Require Import String.\nOpen Scope string_scope.\n\n"
    out += "Definition translator_ok : bool := true.\n\n"
    out += "(* method -> (coroutine function?, (decorators, suspension constructs in the body)) *)\n"
    out += "Definition usermgr_methods : list (string * (bool * (list string * list string))) :=\n  "
    out += method_facts(um, ["get_user", "authenticate", "notify_logout"]) + ".\n"
    out += "Definition counter_methods : list (string * (bool * (list string * list string))) :=\n  "
    out += method_facts(ac, ["locked", "acquire", "release"]) + ".\n"
    out += f"Definition usermgr_bases : list string := {slist([ast.unparse(b) for b in um.bases])}.\n"
    return out
