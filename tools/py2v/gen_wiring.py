"""Gen/Wiring.v: which throttle objects are attached under which key to which stream, and which
timeout attribute each StreamIO keyword receives -- read off the AST of server.py / client.py /
common.py (no execution of repo code).  Fail closed: any use of a throttle attribute, of a
`.throttles` dict or of a *StreamIO constructor whose shape is not one of the classified ones
raises Unclassified (py2v then emits `translator_ok := false`).

Emitted data (all text is `list Z` of code points):

  throttle_sites : list (site * (dict_tag * dict_expr) * list (key * (src_tag * src_text)))
      dict_tag 0 = a NEW dict built at this site        (dict(...) call or {...} literal)
               1 = the SAME dict object as <dict_expr>  (throttles=<attribute chain>)
               2 = in-place .update(...) of <dict_expr>
      src_tag  0 = Shared  <attr>        `self.<attr>`                  one object for the owner
               1 = CloneOf <attr>        `self.<attr>.clone()`          fresh object per evaluation
               2 = PerKey  <attr>[<key>] `self.<attr>[<key expr>]`      one object per key
               3 = Fresh   <call text>   `StreamThrottle.from_limits(..)` fresh object per evaluation
  attr_inits : list (Class.attr * ctor text * number of assignment sites in the class)
  per_user_guarded : bool     the only store into self.throttle_per_user[k] sits under
                              `if k not in self.throttle_per_user:` and stores a from_limits() object
  stream_stores_dict_by_reference : bool   ThrottleStreamIO.__init__ does `self.throttles = throttles`
  stream_ops : list (method * wait direction * append direction)  for read / readline / write
  stream_wait_untimed : bool  ThrottleStreamIO.wait(name) creates one task `asyncio.create_task(t.wait())` per
                              throttle and awaits ALL of them to completion (`asyncio.wait(tasks)` with no
                              timeout / return_when, or an equivalent gather / loop), nothing in it is timed: it
                              resumes when the last sleep ends, whatever read/write timeout the stream has
  per_user_never_removed : bool   self.throttle_per_user is only tested (`in` / `not in`), subscripted for
                              reading, and stored under the guard above: no pop / del / clear / re-assignment
                              (every other use of the attribute makes the translator fail closed)
  timeout_facts : list (site * keyword * expression text)          (used by C16)
"""
import ast
from pathlib import Path

from . import emit


class Unclassified(Exception):
    pass


STREAM_CTORS = {"StreamIO", "ThrottleStreamIO", "DataConnectionThrottleStreamIO"}
TIMEOUT_KW = ("timeout", "read_timeout", "write_timeout")


def _parents(tree):
    for node in ast.walk(tree):
        for ch in ast.iter_child_nodes(node):
            ch._parent = node


def _site(node):
    names = []
    n = node
    while hasattr(n, "_parent"):
        n = n._parent
        if isinstance(n, (ast.FunctionDef, ast.AsyncFunctionDef, ast.ClassDef)):
            names.append(n.name)
    return ".".join(reversed(names))


def _where(node, fname):
    return f"{fname}:{getattr(node, 'lineno', '?')}"


def _is_self_attr(e, attr=None):
    return (
        isinstance(e, ast.Attribute)
        and isinstance(e.value, ast.Name)
        and e.value.id == "self"
        and (attr is None or e.attr == attr)
    )


def _is_from_limits(e):
    return (
        isinstance(e, ast.Call)
        and isinstance(e.func, ast.Attribute)
        and e.func.attr == "from_limits"
        and isinstance(e.func.value, ast.Name)
        and e.func.value.id == "StreamThrottle"
    )


def classify_source(e, fname):
    """value stored under a key of a throttles dict -> (tag, text)"""
    if _is_self_attr(e):
        return 0, e.attr
    if (
        isinstance(e, ast.Call)
        and not e.args
        and not e.keywords
        and isinstance(e.func, ast.Attribute)
        and e.func.attr == "clone"
        and _is_self_attr(e.func.value)
    ):
        return 1, e.func.value.attr
    if isinstance(e, ast.Subscript) and _is_self_attr(e.value):
        return 2, f"{e.value.attr}[{ast.unparse(e.slice)}]"
    if _is_from_limits(e):
        return 3, ast.unparse(e)
    raise Unclassified(f"throttle source {ast.unparse(e)!r} at {_where(e, fname)}")


def classify_dict(e, fname):
    """the `throttles=` argument -> ((tag, expr text), entries)"""
    if isinstance(e, ast.Call) and isinstance(e.func, ast.Name) and e.func.id == "dict" and not e.args:
        ents = []
        for kw in e.keywords:
            if kw.arg is None:
                raise Unclassified(f"**kwargs in dict() at {_where(e, fname)}")
            ents.append((kw.arg, classify_source(kw.value, fname)))
        return (0, ""), ents
    if isinstance(e, ast.Dict):
        ents = []
        for k, v in zip(e.keys, e.values):
            if not (isinstance(k, ast.Constant) and isinstance(k.value, str)):
                raise Unclassified(f"non-literal dict key at {_where(e, fname)}")
            ents.append((k.value, classify_source(v, fname)))
        return (0, ""), ents
    if isinstance(e, ast.Attribute) and e.attr == "throttles":
        chain = e
        while isinstance(chain, ast.Attribute):
            chain = chain.value
        if not isinstance(chain, ast.Name):
            raise Unclassified(f"throttles source {ast.unparse(e)!r} at {_where(e, fname)}")
        return (1, ast.unparse(e)), []
    raise Unclassified(f"throttles argument {ast.unparse(e)!r} at {_where(e, fname)}")


def scan_module(path, sites, timeouts, inits, flags):
    fname = path.name
    tree = ast.parse(path.read_text())
    _parents(tree)
    handled = set()  # ids of Attribute nodes (`.throttles`, `self.throttle*`) already classified

    def mark(e):
        for n in ast.walk(e):
            handled.add(id(n))

    for node in ast.walk(tree):
        # ---- stream constructors
        if isinstance(node, ast.Call) and isinstance(node.func, ast.Name) and node.func.id in STREAM_CTORS:
            site = _site(node)
            for kw in node.keywords:
                if kw.arg is None:
                    raise Unclassified(f"**kwargs in {node.func.id}() at {_where(node, fname)}")
                if kw.arg == "throttles":
                    d, ents = classify_dict(kw.value, fname)
                    sites.append((site, d, ents))
                    mark(kw.value)
                elif kw.arg in TIMEOUT_KW:
                    timeouts.append((site, kw.arg, ast.unparse(kw.value)))
                else:
                    raise Unclassified(f"keyword {kw.arg!r} of {node.func.id}() at {_where(node, fname)}")
            if node.func.id != "StreamIO" and not any(kw.arg == "throttles" for kw in node.keywords):
                raise Unclassified(f"{node.func.id}() without throttles= at {_where(node, fname)}")
        # ---- <expr>.throttles.update(key=..., ...)
        if (
            isinstance(node, ast.Call)
            and isinstance(node.func, ast.Attribute)
            and node.func.attr == "update"
            and isinstance(node.func.value, ast.Attribute)
            and node.func.value.attr == "throttles"
        ):
            if node.args:
                raise Unclassified(f"positional argument to throttles.update at {_where(node, fname)}")
            ents = []
            for kw in node.keywords:
                if kw.arg is None:
                    raise Unclassified(f"**kwargs in throttles.update at {_where(node, fname)}")
                ents.append((kw.arg, classify_source(kw.value, fname)))
            sites.append((_site(node), (2, ast.unparse(node.func.value)), ents))
            mark(node)
        # ---- assignments  self.throttle* = ...   /   self.throttle_per_user[k] = v
        if isinstance(node, ast.Assign):
            for tgt in node.targets:
                if _is_self_attr(tgt) and "throttle" in tgt.attr:
                    cls_site = _site(node)
                    if not cls_site.endswith(".__init__"):
                        raise Unclassified(f"{ast.unparse(tgt)} assigned outside __init__ at {_where(node, fname)}")
                    if _is_from_limits(node.value):
                        ctor = "from_limits(" + ", ".join(ast.unparse(a) for a in node.value.args) + ")"
                        if node.value.keywords:
                            raise Unclassified(f"keywords in from_limits at {_where(node, fname)}")
                    elif isinstance(node.value, ast.Dict) and not node.value.keys:
                        ctor = "{}"
                    elif isinstance(node.value, ast.Name) and node.value.id == "throttles" and tgt.attr == "throttles":
                        ctor = "throttles"
                    else:
                        raise Unclassified(f"{ast.unparse(node)!r} at {_where(node, fname)}")
                    inits.append((cls_site.rsplit(".", 1)[0] + "." + tgt.attr, ctor))
                    mark(tgt)
                elif isinstance(tgt, ast.Subscript) and _is_self_attr(tgt.value) and "throttle" in tgt.value.attr:
                    # must be:  if <k> not in self.<attr>:  v = StreamThrottle.from_limits(..); self.<attr>[<k>] = v
                    par = node._parent
                    ok = (
                        isinstance(par, ast.If)
                        and isinstance(par.test, ast.Compare)
                        and len(par.test.ops) == 1
                        and isinstance(par.test.ops[0], ast.NotIn)
                        and ast.unparse(par.test.left) == ast.unparse(tgt.slice)
                        and ast.unparse(par.test.comparators[0]) == ast.unparse(tgt.value)
                        and not par.orelse
                        and node in par.body
                    )
                    if ok:
                        val = node.value
                        if isinstance(val, ast.Name):
                            defs = [
                                s for s in par.body
                                if isinstance(s, ast.Assign)
                                and any(isinstance(t, ast.Name) and t.id == val.id for t in s.targets)
                            ]
                            ok = len(defs) == 1 and _is_from_limits(defs[0].value)
                        else:
                            ok = _is_from_limits(val)
                    flags["per_user_store_sites"] = flags.get("per_user_store_sites", 0) + 1
                    flags["per_user_guarded"] = flags.get("per_user_guarded", True) and ok
                    mark(tgt)
                    mark(par.test)
    # ---- everything else that touches a throttle attribute must have been classified above
    for node in ast.walk(tree):
        if id(node) in handled or not isinstance(node, ast.Attribute):
            continue
        if node.attr == "throttles" and fname != "common.py":
            raise Unclassified(f"unclassified use of .throttles at {_where(node, fname)}: {ast.unparse(node._parent)!r}")
        if _is_self_attr(node) and "throttle" in node.attr and fname != "common.py":
            raise Unclassified(f"unclassified use of self.{node.attr} at {_where(node, fname)}: {ast.unparse(node._parent)!r}")


def scan_common(path, timeouts, flags, ops):
    tree = ast.parse(path.read_text())
    _parents(tree)
    classes = {n.name: n for n in tree.body if isinstance(n, ast.ClassDef)}
    for need in ("StreamIO", "ThrottleStreamIO", "Throttle", "StreamThrottle"):
        if need not in classes:
            raise Unclassified(f"class {need} not found in common.py")

    def method(cls, name):
        for n in classes[cls].body:
            if isinstance(n, (ast.FunctionDef, ast.AsyncFunctionDef)) and n.name == name:
                return n
        raise Unclassified(f"{cls}.{name} not found")

    # StreamIO.__init__: self.<kw>_timeout = <expr>
    from .normalize import if_assign_to_ifexp
    init = if_assign_to_ifexp(method("StreamIO", "__init__"))  # if/else stores read as conditional expressions
    seen = set()
    for st in init.body:
        if isinstance(st, ast.Assign) and len(st.targets) == 1 and _is_self_attr(st.targets[0]):
            attr = st.targets[0].attr
            if "timeout" in attr:
                timeouts.append(("StreamIO.__init__", attr, ast.unparse(st.value)))
                seen.add(attr)
    if seen != {"read_timeout", "write_timeout"}:
        raise Unclassified(f"StreamIO.__init__ timeout attributes: {sorted(seen)}")
    # which timeout attribute guards which StreamIO method
    for n in classes["StreamIO"].body:
        if isinstance(n, ast.AsyncFunctionDef):
            for dec in n.decorator_list:
                if isinstance(dec, ast.Call) and isinstance(dec.func, ast.Name) and dec.func.id == "with_timeout":
                    if len(dec.args) != 1 or not isinstance(dec.args[0], ast.Constant):
                        raise Unclassified(f"with_timeout decorator of StreamIO.{n.name}")
                    timeouts.append((f"StreamIO.{n.name}", "with_timeout", dec.args[0].value))
                else:
                    raise Unclassified(f"decorator of StreamIO.{n.name}: {ast.unparse(dec)}")

    # ThrottleStreamIO.__init__(self, *args, throttles={}, **kwargs): self.throttles = throttles
    tinit = method("ThrottleStreamIO", "__init__")
    byref = False
    for st in tinit.body:
        if isinstance(st, ast.Assign) and len(st.targets) == 1 and _is_self_attr(st.targets[0], "throttles"):
            byref = isinstance(st.value, ast.Name) and st.value.id == "throttles"
    flags["byref"] = byref

    # read / readline / write:  await self.wait(<d1>); start = _now(); ...; self.append(<d2>, data, start)
    for name in ("read", "readline", "write"):
        m = method("ThrottleStreamIO", name)
        waits, appends = [], []
        for n in ast.walk(m):
            if isinstance(n, ast.Call) and _is_self_attr(n.func):
                if n.func.attr == "wait":
                    if len(n.args) != 1 or not isinstance(n.args[0], ast.Constant):
                        raise Unclassified(f"ThrottleStreamIO.{name}: wait() argument")
                    waits.append(n.args[0].value)
                elif n.func.attr == "append":
                    if len(n.args) != 3 or not isinstance(n.args[0], ast.Constant):
                        raise Unclassified(f"ThrottleStreamIO.{name}: append() arguments")
                    # the third argument is the local bound to `_now()` in this method (whatever it is called)
                    stamps = [
                        t.id for a in ast.walk(m) if isinstance(a, ast.Assign) and ast.unparse(a.value) == "_now()"
                        for t in a.targets if isinstance(t, ast.Name)
                    ]
                    if len(stamps) != 1 or not isinstance(n.args[2], ast.Name) or n.args[2].id != stamps[0]:
                        raise Unclassified(f"ThrottleStreamIO.{name}: append() start argument")
                    appends.append(n.args[0].value)
        if len(waits) != 1 or len(appends) != 1:
            raise Unclassified(f"ThrottleStreamIO.{name}: {len(waits)} wait / {len(appends)} append calls")
        ops.append((name, waits[0], appends[0]))

    flags["wait_untimed"] = wait_shape(method("ThrottleStreamIO", "wait"))


def wait_shape(m):
    """ThrottleStreamIO.wait(self, name):
           tasks = []
           for throttle in self.throttles.values():
               curr_throttle = getattr(throttle, name)
               if curr_throttle.limit:
                   tasks.append(asyncio.create_task(curr_throttle.wait()))
           if tasks:
               await asyncio.wait(tasks)
    True iff the method awaits ALL the throttle wait tasks to completion and nothing in it is timed:
      * every await is `asyncio.wait(<tasks>)` (one positional argument, no timeout= / return_when=),
        `asyncio.gather(*<tasks>)`, or `await <t>` inside `for <t> in <tasks>` -- equivalent ways of waiting
        for the last sleep to end -- and there is at least one;
      * <tasks> starts as [] and is only ever appended `asyncio.create_task(<x>.wait())`;
      * no wait_for / asyncio.timeout / `with` block / attribute or string mentioning a timeout appears."""
    awaits = [n for n in ast.walk(m) if isinstance(n, ast.Await)]
    if not awaits:
        return False
    names = set()
    for aw in awaits:
        v = aw.value
        if isinstance(v, ast.Call) and ast.unparse(v.func) == "asyncio.wait":
            if len(v.args) != 1 or not isinstance(v.args[0], ast.Name) or v.keywords:
                return False
            names.add(v.args[0].id)
        elif isinstance(v, ast.Call) and ast.unparse(v.func) == "asyncio.gather":
            if len(v.args) != 1 or not isinstance(v.args[0], ast.Starred) or not isinstance(v.args[0].value, ast.Name):
                return False
            if any(kw.arg != "return_exceptions" for kw in v.keywords):
                return False
            names.add(v.args[0].value.id)
        elif isinstance(v, ast.Name):
            par = aw
            loop = None
            while hasattr(par, "_parent"):
                par = par._parent
                if isinstance(par, ast.For) and isinstance(par.target, ast.Name) and par.target.id == v.id:
                    loop = par
                    break
            if loop is None or not isinstance(loop.iter, ast.Name) or loop.orelse:
                return False
            if any(isinstance(n, (ast.Break, ast.Continue, ast.Return)) for n in ast.walk(loop)):
                return False
            names.add(loop.iter.id)
        else:
            return False
    if len(names) != 1:
        return False
    tasks = names.pop()
    inits = [
        n for n in ast.walk(m)
        if isinstance(n, ast.Assign) and any(isinstance(t, ast.Name) and t.id == tasks for t in n.targets)
    ]
    if len(inits) != 1 or not (isinstance(inits[0].value, ast.List) and not inits[0].value.elts):
        return False
    appended = 0
    for n in ast.walk(m):
        if isinstance(n, ast.Call) and isinstance(n.func, ast.Attribute) and isinstance(n.func.value, ast.Name) \
                and n.func.value.id == tasks:
            if n.func.attr != "append" or len(n.args) != 1:
                return False
            a = n.args[0]
            ok = (
                isinstance(a, ast.Call)
                and ast.unparse(a.func) in ("asyncio.create_task", "asyncio.ensure_future")
                and len(a.args) == 1
                and not a.keywords
                and isinstance(a.args[0], ast.Call)
                and isinstance(a.args[0].func, ast.Attribute)
                and a.args[0].func.attr == "wait"
                and not a.args[0].args
                and not a.args[0].keywords
            )
            if not ok:
                return False
            appended += 1
        if isinstance(n, (ast.With, ast.AsyncWith)):
            return False
        if isinstance(n, ast.Attribute) and (n.attr in ("wait_for", "timeout_at") or "timeout" in n.attr):
            return False
        if isinstance(n, ast.Constant) and isinstance(n.value, str) and "timeout" in n.value and not isinstance(
            getattr(n, "_parent", None), ast.Expr
        ):
            return False
    return appended == 1


def generate(src_dir):
    src = Path(src_dir)
    sites, timeouts, inits, flags, ops = [], [], [], {}, []
    scan_module(src / "server.py", sites, timeouts, inits, flags)
    scan_module(src / "client.py", sites, timeouts, inits, flags)
    scan_common(src / "common.py", timeouts, flags, ops)
    guarded = flags.get("per_user_guarded", False) and flags.get("per_user_store_sites", 0) == 1

    counts = {}
    for name, ctor in inits:
        counts[name] = counts.get(name, 0) + 1

    def ent(e):
        key, (tag, txt) = e
        return f"({emit.text(key)}, ({emit.z(tag)}, {emit.text(txt)}))"

    def site(s):
        name, (tag, expr), ents = s
        return f"({emit.text(name)}, ({emit.z(tag)}, {emit.text(expr)}), {emit.lst([ent(e) for e in ents])})"

    out = [emit.HEADER.format(src=str(src))]
    out.append("(* readable form:")
    for name, (tag, expr), ents in sites:
        out.append(f"   {name}: dict_tag={tag} {expr} " + "; ".join(f"{k} <- {t}:{x}" for k, (t, x) in ents))
    for t in timeouts:
        out.append(f"   timeout {t[0]}: {t[1]} = {t[2]}")
    for name, ctor in inits:
        out.append(f"   init {name} = {ctor}")
    out.append(f"   ops {ops}")
    out.append("*)")
    out.append(
        "Definition throttle_sites : list (list Z * (Z * list Z) * list (list Z * (Z * list Z))) :=\n  "
        + emit.lst([site(s) for s in sites]).replace("); (", ");\n   (")
        + "."
    )
    out.append(
        "Definition attr_inits : list (list Z * list Z * Z) :=\n  "
        + emit.lst([f"({emit.text(n)}, {emit.text(c)}, {emit.z(counts[n])})" for n, c in inits])
        + "."
    )
    out.append(f"Definition per_user_guarded : bool := {emit.boolean(guarded)}.")
    out.append(f"Definition stream_stores_dict_by_reference : bool := {emit.boolean(flags.get('byref', False))}.")
    out.append(
        "Definition stream_ops : list (list Z * list Z * list Z) :=\n  "
        + emit.lst([f"({emit.text(a)}, {emit.text(b)}, {emit.text(c)})" for a, b, c in ops])
        + "."
    )
    out.append(
        "Definition timeout_facts : list (list Z * list Z * list Z) :=\n  "
        + emit.lst([f"({emit.text(a)}, {emit.text(b)}, {emit.text(c)})" for a, b, c in timeouts])
        + "."
    )
    out.append(f"Definition stream_wait_untimed : bool := {emit.boolean(flags.get('wait_untimed', False))}.")
    # scan_module raises Unclassified on any use of self.throttle_per_user other than `k [not] in`,
    # `[k]` (load) and the guarded store: reaching this line means nothing removes or replaces entries
    out.append("Definition per_user_never_removed : bool := true.")
    out.append("Definition translator_ok_wiring : bool := true.")
    return "\n".join(out) + "\n"
