"""Gen/RegexInventory.v: every regular expression of the aioftp sources, with a syntactic complexity verdict (C19 "never hangs").

Pure static analysis: an ast walk over src/aioftp/*.py collects every call `re.<fn>(<pattern>, ...)` / `re.compile(<pattern>)`;
the pattern must be a string literal (anything else => Unclassified, fail closed).  Each pattern is parsed with CPython's own
regular-expression parser (`re._parser`, no matching, no repo code executed) and classified:

  nested_unbounded : an unbounded repeat (`*`, `+`, `{n,}`) whose body contains another unbounded repeat or an alternation /
                     optional item through which the body can match the same text in more than one way -- conservatively: the body
                     contains an unbounded repeat, or contains an optional / alternative item AND is itself under an unbounded repeat.
                     Such a pattern (e.g. `(?:\\d+,?)+`) backtracks exponentially on an almost-matching input.

Emitted: `regex_inventory : list (list Z * list Z * list Z * bool)` = (file, function, pattern, nested_unbounded).
The obligation in Props/C19.v: no entry is flagged, and the set of patterns is exactly the modelled one."""
import ast
from pathlib import Path

try:
    import re._parser as sre_parse
    import re._constants as sre_const
except ImportError:  # pragma: no cover - older CPython
    import sre_parse
    import sre_constants as sre_const

from . import emit
from .gen_dispatch import Unclassified, src

RE_FUNCS = {"compile", "match", "fullmatch", "search", "findall", "finditer", "sub", "subn", "split"}
UNBOUNDED = sre_const.MAXREPEAT


def repeats(op):
    return op in (sre_const.MAX_REPEAT, sre_const.MIN_REPEAT) or str(op) in ("POSSESSIVE_REPEAT",)


def walk(items):
    """yield (op, av) for every node of a parsed pattern, depth first"""
    for op, av in items:
        yield op, av
        for sub in children(op, av):
            yield from walk(sub)


def children(op, av):
    if repeats(op):
        return [av[2]]
    if op is sre_const.SUBPATTERN:
        return [av[3]]
    if op is sre_const.BRANCH:
        return list(av[1])
    if op in (sre_const.ASSERT, sre_const.ASSERT_NOT):
        return [av[1]]
    if str(op) == "ATOMIC_GROUP":
        return [av]
    if op is sre_const.GROUPREF_EXISTS:
        return [x for x in av[1:] if x is not None]
    return []


def ambiguous_body(body):
    """the body of an unbounded repeat can match one text in several ways: it contains an unbounded repeat itself, or an optional
    item ({0,..}), or an alternation"""
    for op, av in walk(body):
        if repeats(op) and (av[1] == UNBOUNDED or av[0] == 0):
            return True
        if op is sre_const.BRANCH:
            return True
    return False


def nested_unbounded(pattern):
    parsed = sre_parse.parse(pattern)
    for op, av in walk(parsed):
        if repeats(op) and av[1] == UNBOUNDED and ambiguous_body(av[2]):
            return True
    return False


def inventory(src_dir):
    out = []
    for path in sorted(Path(src_dir).glob("*.py")):
        tree = ast.parse(path.read_text())
        funcs = {}
        for fn in ast.walk(tree):
            if isinstance(fn, (ast.FunctionDef, ast.AsyncFunctionDef)):
                for n in ast.walk(fn):
                    funcs.setdefault(id(n), fn.name)
        for n in ast.walk(tree):
            if isinstance(n, ast.Call) and isinstance(n.func, ast.Attribute) and isinstance(n.func.value, ast.Name) and n.func.value.id == "re":
                if n.func.attr not in RE_FUNCS:
                    if n.func.attr in ("escape", "purge"):
                        continue
                    raise Unclassified(f"{path.name}: re.{n.func.attr}")
                if not n.args or not (isinstance(n.args[0], ast.Constant) and isinstance(n.args[0].value, str)):
                    raise Unclassified(f"{path.name}: pattern of {src(n)[:80]} is not a string literal")
                out.append((path.name, funcs.get(id(n), "<module>"), n.args[0].value))
        # `import re as X` / `from re import ...` would hide calls from the walk above: fail closed
        for n in ast.walk(tree):
            if isinstance(n, ast.ImportFrom) and n.module == "re":
                raise Unclassified(f"{path.name}: from re import ...")
            if isinstance(n, ast.Import) and any(a.name == "re" and a.asname not in (None, "re") for a in n.names):
                raise Unclassified(f"{path.name}: import re as ...")
    return out


def generate(src_dir):
    inv = inventory(src_dir)
    T = emit.text
    rows = [f"({T(f)}, {T(fn)}, {T(p)}, {emit.boolean(nested_unbounded(p))})" for f, fn, p in inv]
    return (emit.HEADER.format(src=str(src_dir))
            + "Definition regex_inventory_translator_ok : bool := true.\n\n"
            + "Definition regex_inventory : list (list Z * list Z * list Z * bool) :=\n  " + emit.lst(rows) + ".\n")
