"""Gen/Consts.v: module-level constants of common.py and the exception class hierarchy of
errors.py, read from the AST only (no repo code is executed).

Numeric constants are evaluated by a tiny arithmetic evaluator over exact rationals
(int / float literals, + - * / // % **, unary -, names of constants evaluated earlier in the same
module).  It fails closed (raises Unclassified) on anything else, and also when Python's own
float arithmetic on the same expression would not be exact (so that the emitted rational IS the
value the interpreter computes)."""
import ast
from fractions import Fraction
from pathlib import Path

from . import emit


class Unclassified(Exception):
    pass


NUMERIC = ["HALF_OF_YEAR_IN_SECONDS", "TWO_YEARS_IN_SECONDS", "DEFAULT_BLOCK_SIZE"]
TEXTUAL = ["END_OF_LINE"]


def _loc(node):
    return f"line {getattr(node, 'lineno', '?')}"


def eval_exact(node, env):
    """-> (exact Fraction, python-semantics value: int or float)"""
    if isinstance(node, ast.Constant):
        v = node.value
        if isinstance(v, bool) or not isinstance(v, (int, float)):
            raise Unclassified(f"non-numeric literal {v!r} at {_loc(node)}")
        if isinstance(v, float) and (v != v or v in (float("inf"), float("-inf"))):
            raise Unclassified(f"non-finite float at {_loc(node)}")
        return Fraction(v), v
    if isinstance(node, ast.Name):
        if node.id not in env:
            raise Unclassified(f"name {node.id} is not a previously evaluated constant ({_loc(node)})")
        return env[node.id]
    if isinstance(node, ast.UnaryOp) and isinstance(node.op, (ast.USub, ast.UAdd)):
        q, p = eval_exact(node.operand, env)
        return (-q, -p) if isinstance(node.op, ast.USub) else (q, p)
    if isinstance(node, ast.BinOp):
        lq, lp = eval_exact(node.left, env)
        rq, rp = eval_exact(node.right, env)
        op = node.op
        if isinstance(op, ast.Add):
            return lq + rq, lp + rp
        if isinstance(op, ast.Sub):
            return lq - rq, lp - rp
        if isinstance(op, ast.Mult):
            return lq * rq, lp * rp
        if isinstance(op, ast.Div):
            if rq == 0:
                raise Unclassified(f"division by zero at {_loc(node)}")
            return lq / rq, lp / rp
        if isinstance(op, (ast.FloorDiv, ast.Mod)):
            if rq == 0 or not (isinstance(lp, int) and isinstance(rp, int)):
                raise Unclassified(f"// or % on non-integers at {_loc(node)}")
            if isinstance(op, ast.FloorDiv):
                return Fraction(lp // rp), lp // rp
            return Fraction(lp % rp), lp % rp
        if isinstance(op, ast.Pow):
            if not (isinstance(rp, int) and 0 <= rp <= 64 and isinstance(lp, int) and abs(lp) <= 2**32):
                raise Unclassified(f"** outside small integers at {_loc(node)}")
            return Fraction(lp**rp), lp**rp
        raise Unclassified(f"operator {type(op).__name__} at {_loc(node)}")
    raise Unclassified(f"expression {type(node).__name__} at {_loc(node)}")


def module_constants(tree, wanted_num, wanted_txt):
    env, txt = {}, {}
    seen = {}
    for node in tree.body:
        targets = []
        if isinstance(node, ast.Assign):
            targets = [t for t in node.targets]
            value = node.value
        elif isinstance(node, ast.AnnAssign) and node.value is not None:
            targets = [node.target]
            value = node.value
        else:
            continue
        for t in targets:
            if not isinstance(t, ast.Name):
                if any(isinstance(x, ast.Name) and x.id in wanted_num + wanted_txt for x in ast.walk(t)):
                    raise Unclassified(f"destructuring assignment to a wanted constant at {_loc(node)}")
                continue
            name = t.id
            if name in wanted_num or name in wanted_txt:
                seen[name] = seen.get(name, 0) + 1
                if seen[name] > 1:
                    raise Unclassified(f"{name} assigned more than once")
            if name in wanted_num:
                env[name] = eval_exact(value, env)
                q, p = env[name]
                if Fraction(p) != q:
                    raise Unclassified(f"{name}: Python float arithmetic is not exact here ({p!r} vs {q})")
            elif name in wanted_txt:
                if not (isinstance(value, ast.Constant) and isinstance(value.value, str)):
                    raise Unclassified(f"{name} is not a string literal")
                txt[name] = value.value
            elif name.isupper():
                # other simple numeric constants may be referenced by the wanted ones
                try:
                    env[name] = eval_exact(value, env)
                except Unclassified:
                    pass
    # a wanted name rebound anywhere else (function bodies, global statements, augmented assignment)
    for node in ast.walk(tree):
        if isinstance(node, ast.AugAssign) and isinstance(node.target, ast.Name) and node.target.id in wanted_num + wanted_txt:
            raise Unclassified(f"{node.target.id} is modified by an augmented assignment at {_loc(node)}")
        if isinstance(node, ast.Global) and any(n in wanted_num + wanted_txt for n in node.names):
            raise Unclassified(f"global statement on a wanted constant at {_loc(node)}")
    for n in wanted_num:
        if n not in env:
            raise Unclassified(f"constant {n} not found at module level")
    for n in wanted_txt:
        if n not in txt:
            raise Unclassified(f"constant {n} not found at module level")
    return env, txt


def dotted(node):
    if isinstance(node, ast.Name):
        return node.id
    if isinstance(node, ast.Attribute):
        return dotted(node.value) + "." + node.attr
    raise Unclassified(f"base class expression {type(node).__name__} at {_loc(node)}")


def class_hierarchy(tree):
    out = []
    for node in tree.body:
        if isinstance(node, ast.ClassDef):
            if node.keywords:
                raise Unclassified(f"class {node.name}: keywords (metaclass?) at {_loc(node)}")
            if node.decorator_list:
                raise Unclassified(f"class {node.name}: decorated at {_loc(node)}")
            out.append((node.name, [dotted(b) for b in node.bases]))
    names = [n for n, _ in out]
    if len(set(names)) != len(names):
        raise Unclassified("a class is defined twice in errors.py")
    return out


def generate(src_dir):
    src_dir = Path(src_dir)
    common = ast.parse((src_dir / "common.py").read_text())
    errs = ast.parse((src_dir / "errors.py").read_text())
    env, txt = module_constants(common, NUMERIC, TEXTUAL)
    s = emit.HEADER.format(src=f"{src_dir}/common.py, errors.py (AST only)")
    for n in NUMERIC:
        q, p = env[n]
        low = n.lower()
        s += f"(* {n} = {p!r} *)\n"
        s += f"Definition {low}_num : Z := {emit.z(q.numerator)}.\n"
        s += f"Definition {low}_den : Z := {emit.z(q.denominator)}.\n"
    if env["DEFAULT_BLOCK_SIZE"][0].denominator != 1:
        raise Unclassified("DEFAULT_BLOCK_SIZE is not an integer")
    s += f"Definition default_block_size : Z := {emit.z(env['DEFAULT_BLOCK_SIZE'][0].numerator)}.\n"
    s += f"Definition end_of_line : list Z := {emit.text(txt['END_OF_LINE'])}.\n"
    hier = class_hierarchy(errs)
    s += "(* errors.py: (class name, base names) in source order: " + "; ".join(
        f"{n}({', '.join(b)})" for n, b in hier
    ) + " *)\n"
    s += (
        "Definition error_classes : list (list Z * list (list Z)) := "
        + emit.lst(f"({emit.text(n)}, {emit.lst(emit.text(b) for b in bs)})" for n, bs in hier)
        + ".\n"
    )
    s += "Definition translator_ok_consts : bool := true.\n"
    return s
