"""Gen/ParserFacts.v: the structure of the client parsers that the C19 model was written from.

Pure ast walk over client.py, no execution of repo code, fail closed (Unclassified => translator failed closed
through __main__, the file then lacks the definitions and every dependent obligation breaks).  Facts (text = code points):

  parse_list_line     : the parser chain (attribute names in list order), the class names of the `except (...)` tuple inside the
                        `for parser in parsers` loop, what the handler does ("append" = ex.append(e), nothing re-raised), and the
                        class raised after the loop
  parse_epsv_response : the regular expression, the index picked from the matches, the slice taken from the match
  parse_pasv_response : the regular expression, the split character, the port expression
  parse_unix_mode     : the parse_rw table; for each (slice, shift); for each special position the (character, bits) pairs and
                        that the final else raises ValueError
  AsyncLister.__anext__ : the tuple of names that are skipped (`str(name) in (...)` followed by `continue`) and the recursion test
  F12 repair            : the `if <test>: raise ValueError` guards directly after `s = s[12:].strip()` (unix), after
                          `filename = line[next_space:].lstrip()` (windows), after `... = line.partition(' ')` (MLSx) and after
                          `name, info = cls.parse_line(line)` in the lister -- emitted as "<test>:<class>", "" when absent, so the
                          unrepaired source computes `false` in the obligation instead of failing the translator
"""
import ast
from pathlib import Path

from . import emit
from .gen_dispatch import Unclassified, src


def find_func(tree, name):
    hits = [n for n in ast.walk(tree) if isinstance(n, (ast.FunctionDef, ast.AsyncFunctionDef)) and n.name == name]
    if len(hits) != 1:
        raise Unclassified(f"{name}: expected exactly one definition, found {len(hits)}")
    return hits[0]


def const_str(node, what):
    if isinstance(node, ast.Constant) and isinstance(node.value, str):
        return node.value
    raise Unclassified(f"{what}: not a string literal: {src(node)}")


def const_int(node, what):
    if isinstance(node, ast.Constant) and isinstance(node.value, int) and not isinstance(node.value, bool):
        return node.value
    if isinstance(node, ast.UnaryOp) and isinstance(node.op, ast.USub):
        return -const_int(node.operand, what)
    raise Unclassified(f"{what}: not an integer literal: {src(node)}")


def list_line_facts(tree):
    f = find_func(tree, "parse_list_line")
    chain = None
    for n in ast.walk(f):
        if isinstance(n, ast.Assign) and len(n.targets) == 1 and isinstance(n.targets[0], ast.Name) and n.targets[0].id == "parsers" \
                and isinstance(n.value, ast.List) and chain is None:
            chain = []
            for e in n.value.elts:
                if not (isinstance(e, ast.Attribute) and isinstance(e.value, ast.Name) and e.value.id == "self"):
                    raise Unclassified(f"parse_list_line: parser chain element {src(e)}")
                chain.append(e.attr)
    if chain is None:
        raise Unclassified("parse_list_line: no `parsers = [...]`")
    loops = [n for n in f.body if isinstance(n, ast.For)]
    if len(loops) != 1 or src(loops[0].iter) != "parsers":
        raise Unclassified("parse_list_line: expected one `for parser in parsers` loop")
    tries = [n for n in ast.walk(loops[0]) if isinstance(n, ast.Try)]
    if len(tries) != 1 or len(tries[0].handlers) != 1 or tries[0].finalbody or tries[0].orelse:
        raise Unclassified("parse_list_line: expected one try with one handler")
    t = tries[0]
    if len(t.body) != 1 or not isinstance(t.body[0], ast.Return) or src(t.body[0].value) != "parser(b)":
        raise Unclassified("parse_list_line: try body is not `return parser(b)`")
    h = t.handlers[0]
    if h.type is None:
        classes = ["BaseException"]
    elif isinstance(h.type, ast.Tuple):
        classes = [e.id if isinstance(e, ast.Name) else None for e in h.type.elts]
    elif isinstance(h.type, ast.Name):
        classes = [h.type.id]
    else:
        classes = [None]
    if None in classes:
        raise Unclassified(f"parse_list_line: handler type {src(h.type)}")
    if len(h.body) == 1 and isinstance(h.body[0], ast.Expr) and src(h.body[0].value) == f"ex.append({h.name})":
        action = "append"
    else:
        raise Unclassified("parse_list_line: handler body is not `ex.append(e)`: " + "; ".join(src(s) for s in h.body))
    last = f.body[-1]
    if not (isinstance(last, ast.Raise) and isinstance(last.exc, ast.Call) and isinstance(last.exc.func, ast.Name)):
        raise Unclassified("parse_list_line: does not end with `raise <Class>(...)`")
    if f.body.index(loops[0]) != len(f.body) - 2:
        raise Unclassified("parse_list_line: the final raise does not directly follow the loop")
    return chain, classes, action, last.exc.func.id


def regex_call(f, fn_names):
    calls = [n for n in ast.walk(f) if isinstance(n, ast.Call) and isinstance(n.func, ast.Attribute) and isinstance(n.func.value, ast.Name)
             and n.func.value.id == "re"]
    if len(calls) != 1 or calls[0].func.attr not in fn_names or len(calls[0].args) != 2 or calls[0].keywords:
        raise Unclassified(f"{f.name}: expected exactly one re.{'/'.join(fn_names)}(pattern, s) call")
    return calls[0].func.attr, const_str(calls[0].args[0], f.name + " pattern")


def epsv_facts(tree):
    f = find_func(tree, "parse_epsv_response")
    fn, pat = regex_call(f, ("finditer",))
    body = [s for s in f.body if not (isinstance(s, ast.Expr) and isinstance(s.value, ast.Constant))]
    if len(body) != 4:
        raise Unclassified("parse_epsv_response: expected 4 statements")
    if src(body[0]) != f"matches = tuple(re.finditer({pat!r}, s))" and src(body[0].value) != src(ast.parse(f"tuple(re.finditer({pat!r}, s))").body[0].value):
        raise Unclassified("parse_epsv_response: first statement " + src(body[0]))
    a = body[1]
    if not (isinstance(a, ast.Assign) and isinstance(a.value, ast.Call) and isinstance(a.value.func, ast.Attribute) and a.value.func.attr == "group"
            and not a.value.args and isinstance(a.value.func.value, ast.Subscript) and src(a.value.func.value.value) == "matches"):
        raise Unclassified("parse_epsv_response: second statement " + src(a))
    pick = const_int(a.value.func.value.slice, "parse_epsv_response index")
    p = body[2]
    if not (isinstance(p, ast.Assign) and isinstance(p.value, ast.Call) and src(p.value.func) == "int" and len(p.value.args) == 1
            and isinstance(p.value.args[0], ast.Subscript) and isinstance(p.value.args[0].slice, ast.Slice)):
        raise Unclassified("parse_epsv_response: third statement " + src(p))
    sl = p.value.args[0].slice
    if sl.step is not None or sl.lower is None or sl.upper is None:
        raise Unclassified("parse_epsv_response: slice " + src(p))
    if src(body[3]) != "return (None, port)":
        raise Unclassified("parse_epsv_response: return " + src(body[3]))
    return pat, pick, const_int(sl.lower, "epsv slice"), const_int(sl.upper, "epsv slice")


def pasv_facts(tree):
    f = find_func(tree, "parse_pasv_response")
    fn, pat = regex_call(f, ("findall",))
    body = [src(s) for s in f.body if not (isinstance(s, ast.Expr) and isinstance(s.value, ast.Constant))]
    return pat, body


def unix_mode_facts(tree):
    f = find_func(tree, "parse_unix_mode")
    # the rw table is identified by what it IS (a dict literal of string keys and integer values), not by the name of the local it is
    # bound to: `<local> = {...}` followed by `<local>[s[a:b]]`, or the literal written at each use (`{...}[s[a:b]]`, which is also what
    # normalize.py R3 makes of a private module constant); every use must read the same table
    def dict_table(d):
        return [(const_str(k, "parse_rw key"), const_int(v, "parse_rw value")) for k, v in zip(d.keys, d.values)]

    bound = {}  # local name -> table
    used = []
    slices, specials = [], []
    for s in f.body:
        if isinstance(s, ast.Assign) and len(s.targets) == 1 and isinstance(s.targets[0], ast.Name) and isinstance(s.value, ast.Dict):
            if s.targets[0].id in bound or s.targets[0].id in ("mode", "s"):
                raise Unclassified("parse_unix_mode: table local rebound: " + src(s))
            bound[s.targets[0].id] = dict_table(s.value)
        elif isinstance(s, ast.AugAssign) and isinstance(s.op, ast.BitOr) and src(s.target) == "mode":
            v = s.value
            shift = 0
            if isinstance(v, ast.BinOp) and isinstance(v.op, ast.LShift):
                shift = const_int(v.right, "shift")
                v = v.left
            if not (isinstance(v, ast.Subscript) and isinstance(v.slice, ast.Subscript)
                    and src(v.slice.value) == "s" and isinstance(v.slice.slice, ast.Slice)):
                raise Unclassified("parse_unix_mode: " + src(s))
            if isinstance(v.value, ast.Dict):
                used.append(dict_table(v.value))
            elif isinstance(v.value, ast.Name) and v.value.id in bound:
                used.append(bound[v.value.id])
            else:
                raise Unclassified("parse_unix_mode: subscripted object is neither a dict literal nor a local bound to one: " + src(s))
            slices.append((const_int(v.slice.slice.lower, "slice"), const_int(v.slice.slice.upper, "slice"), shift))
        elif isinstance(s, ast.If):
            pairs, idx, node = [], None, s
            while True:
                t = node.test
                if not (isinstance(t, ast.Compare) and len(t.ops) == 1 and isinstance(t.left, ast.Subscript) and src(t.left.value) == "s"):
                    raise Unclassified("parse_unix_mode: test " + src(t))
                i = const_int(t.left.slice, "index")
                if idx not in (None, i):
                    raise Unclassified("parse_unix_mode: mixed indices")
                idx = i
                ch = const_str(t.comparators[0], "char")
                if isinstance(t.ops[0], ast.Eq):
                    b = node.body
                    if not (len(b) == 1 and isinstance(b[0], ast.AugAssign) and isinstance(b[0].op, ast.BitOr) and src(b[0].target) == "mode"):
                        raise Unclassified("parse_unix_mode: branch " + src(node))
                    pairs.append((ch, const_int(b[0].value, "bits")))
                elif isinstance(t.ops[0], ast.NotEq):
                    if not (len(node.body) == 1 and isinstance(node.body[0], ast.Raise) and src(node.body[0].exc) == "ValueError" and not node.orelse):
                        raise Unclassified("parse_unix_mode: final branch " + src(node))
                    pairs.append((ch, 0))
                    break
                else:
                    raise Unclassified("parse_unix_mode: operator " + src(t))
                if len(node.orelse) == 1 and isinstance(node.orelse[0], ast.If):
                    node = node.orelse[0]
                else:
                    raise Unclassified("parse_unix_mode: an if-chain without the final `!= ... raise ValueError`")
            specials.append((idx, pairs))
        elif isinstance(s, (ast.Return, ast.Expr)) or (isinstance(s, ast.Assign) and src(s) == "mode = 0"):
            continue
        else:
            raise Unclassified("parse_unix_mode: statement " + src(s))
    if not used:
        raise Unclassified("parse_unix_mode: no rw table lookup")
    if any(u != used[0] for u in used):
        raise Unclassified("parse_unix_mode: the rw lookups read different tables")
    return used[0], slices, specials


def lister_facts(tree):
    f = find_func(tree, "__anext__")
    skips = []
    for n in ast.walk(f):
        if isinstance(n, ast.If) and isinstance(n.test, ast.Compare) and src(n.test.left) == "str(name)":
            if not (len(n.test.ops) == 1 and isinstance(n.test.ops[0], ast.In) and isinstance(n.test.comparators[0], (ast.Tuple, ast.List, ast.Set))
                    and len(n.body) == 1 and isinstance(n.body[0], ast.Continue) and not n.orelse):
                raise Unclassified("__anext__: skip test " + src(n))
            skips.append([const_str(e, "skip name") for e in n.test.comparators[0].elts])
    if len(skips) != 1:
        raise Unclassified(f"__anext__: expected exactly one `if str(name) in (...): continue`, found {len(skips)}")
    rec = [src(n.test) for n in ast.walk(f) if isinstance(n, ast.If) and "directories.append" in src(n)]
    if len(rec) != 1:
        raise Unclassified("__anext__: expected one test guarding directories.append")
    return skips[0], rec[0]


def raise_guard(stmts, after_pred, what):
    """the `if <test>: raise <Class>(...)` statement that directly follows the first statement satisfying after_pred:
    returns "<test>:<Class>", or "" when the next statement is not such a guard (the unrepaired shape)"""
    for k, st in enumerate(stmts):
        if after_pred(st):
            nxt = stmts[k + 1] if k + 1 < len(stmts) else None
            if isinstance(nxt, ast.If) and len(nxt.body) == 1 and isinstance(nxt.body[0], ast.Raise) and not nxt.orelse:
                exc = nxt.body[0].exc
                cls = exc.func.id if isinstance(exc, ast.Call) and isinstance(exc.func, ast.Name) else exc.id if isinstance(exc, ast.Name) else None
                if cls is None:
                    raise Unclassified(f"{what}: guard raises {src(exc)}")
                from .normalize import nnf
                return f"{src(nnf(nxt.test))}:{cls}"  # guards are compared as text: in negation normal form
            return ""
    raise Unclassified(f"{what}: anchor statement not found")


def name_guards(tree):
    u = find_func(tree, "parse_list_line_unix")
    unix = raise_guard(u.body, lambda st: isinstance(st, ast.Assign) and src(st) == "s = s[12:].strip()", "parse_list_line_unix")
    w = find_func(tree, "parse_list_line_windows")
    win = raise_guard(w.body, lambda st: isinstance(st, ast.Assign) and src(st) == "filename = line[next_space:].lstrip()", "parse_list_line_windows")
    m = find_func(tree, "parse_mlsx_line")
    parts = [st for st in m.body if isinstance(st, ast.Assign) and isinstance(st.value, ast.Call) and src(st.value) == "line.partition(' ')"]
    if len(parts) != 1:
        raise Unclassified("parse_mlsx_line: expected one `... = line.partition(' ')`")
    targets = src(parts[0].targets[0])
    mlsx = raise_guard(m.body, lambda st: st is parts[0], "parse_mlsx_line")
    return unix, win, targets, mlsx


def lister_type_guard(tree):
    f = find_func(tree, "__anext__")
    loops = [n for n in f.body if isinstance(n, ast.While)]
    if len(loops) != 1:
        raise Unclassified("__anext__: expected one while loop")
    return raise_guard(loops[0].body, lambda st: isinstance(st, ast.Assign) and src(st) == "name, info = cls.parse_line(line)", "__anext__")


def decode_sites(src_dir):
    """every expression that turns peer bytes into text, in the functions the model covers: (file, function, receiver.decode(...) text).
    The model takes decoding to be a FUNCTION of the line (bytes.decode: no state survives the call, none is shared between sessions);
    any other way of decoding (a stored codec object, an incremental decoder ...) shows up here as a different text or as a missing site"""
    wanted = {"server.py": ["parse_command"], "client.py": ["parse_line", "parse_list_line_unix", "parse_list_line_windows", "parse_mlsx_line"]}
    out = []
    for fname, funcs in wanted.items():
        tree = ast.parse((Path(src_dir) / fname).read_text())
        for fn in funcs:
            f = find_func(tree, fn)
            calls = [n for n in ast.walk(f) if isinstance(n, ast.Call)
                     and ((isinstance(n.func, ast.Attribute) and "decode" in n.func.attr.lower())
                          or (isinstance(n.func, ast.Name) and "decode" in n.func.id.lower()))]
            outer = calls
            if len(outer) != 1:
                raise Unclassified(f"{fname}:{fn}: expected exactly one decoding call, found {[src(c) for c in outer]}")
            out.append((fname, fn, src(outer[0])))
    return out


BUILTIN_CALLEES = {"isinstance", "len", "set", "list", "tuple", "dict", "str", "repr", "int", "bool", "sorted", "min", "max", "any", "all"}


def dispatch_callees(src_dir):
    """WHAT CODE a control line can make Server.dispatcher run.  Every call in the dispatcher has a callee that is either STATIC -- a dotted
    chain of attributes rooted at a plain name (`self.greeting`, `asyncio.create_task`, `connection.response`, ...), a module-level /
    builtin name -- or DYNAMIC: a local variable (resolved through every binding it has in the function, transitively through plain-name
    copies), a parameter, or any other expression (subscript, call result, ...).  The fact is the list of the expressions a dynamic
    callee can be bound to, with the function's locals alpha-renamed (L0, L1, ... in order of first occurrence in each expression), so it
    does not depend on how locals are spelt.  The model gives a command an effect on ITS OWN session only (`handle`); that rests on the
    only dynamic callee being the table lookup `self.commands_mapping.get(<verb>)`."""
    tree = ast.parse((Path(src_dir) / "server.py").read_text())
    f = find_func(tree, "dispatcher")
    params = {a.arg for a in f.args.args + f.args.kwonlyargs + f.args.posonlyargs} | ({f.args.vararg.arg} if f.args.vararg else set()) \
        | ({f.args.kwarg.arg} if f.args.kwarg else set())
    bindings = {}  # local name -> list of value nodes (None = bound by something that is not a plain `name = value`)

    def bind(target, value):
        if isinstance(target, ast.Name):
            bindings.setdefault(target.id, []).append(value)
        elif isinstance(target, (ast.Tuple, ast.List)):
            for e in target.elts:
                bind(e, None)
        elif isinstance(target, ast.Starred):
            bind(target.value, None)

    for n in ast.walk(f):
        if isinstance(n, ast.Assign):
            for t in n.targets:
                bind(t, n.value)
        elif isinstance(n, (ast.AnnAssign, ast.NamedExpr)):
            bind(n.target, n.value)
        elif isinstance(n, ast.AugAssign):
            bind(n.target, None)
        elif isinstance(n, (ast.For, ast.AsyncFor, ast.comprehension)):
            bind(n.target, None)
        elif isinstance(n, (ast.With, ast.AsyncWith)):
            for it in n.items:
                if it.optional_vars is not None:
                    bind(it.optional_vars, None)
        elif isinstance(n, ast.ExceptHandler) and n.name:
            bindings.setdefault(n.name, []).append(None)
        elif isinstance(n, (ast.FunctionDef, ast.AsyncFunctionDef, ast.ClassDef)) and n is not f:
            bindings.setdefault(n.name, []).append(None)
        elif isinstance(n, (ast.Import, ast.ImportFrom, ast.Global, ast.Nonlocal)):
            raise Unclassified("dispatcher: " + src(n))
    local_names = set(bindings) | params

    def canon(node):
        seen = {}

        class R(ast.NodeTransformer):
            def visit_Name(self, nm):
                if nm.id in local_names and nm.id != "self":
                    seen.setdefault(nm.id, f"L{len(seen)}")
                    return ast.copy_location(ast.Name(id=seen[nm.id], ctx=nm.ctx), nm)
                return nm

        import copy
        return src(R().visit(copy.deepcopy(node)))

    out = []

    def origins(name, trail):
        if name in trail:
            return
        if name in params and name not in bindings:
            out.append("param:" + name)
            return
        for v in bindings.get(name, []):
            if v is None:
                out.append("unpacked-or-loop-bound")
            elif isinstance(v, ast.Name) and v.id in local_names:
                origins(v.id, trail | {name})
            elif isinstance(v, ast.Lambda):
                continue  # a function written in the dispatcher itself: its body is walked with the rest
            else:
                out.append(canon(v))

    done = set()
    for n in ast.walk(f):
        if not isinstance(n, ast.Call):
            continue
        fn = n.func
        if isinstance(fn, ast.Name):
            if fn.id in local_names:
                if fn.id not in done:
                    done.add(fn.id)
                    origins(fn.id, frozenset())
            elif fn.id not in BUILTIN_CALLEES and not any(isinstance(m, (ast.Import, ast.ImportFrom, ast.FunctionDef, ast.AsyncFunctionDef, ast.ClassDef, ast.Assign))
                                                          and fn.id in src(m) for m in tree.body):
                raise Unclassified("dispatcher: callee name of unknown origin: " + fn.id)
        elif isinstance(fn, ast.Attribute):
            # `<object>.<name fixed in the source>(...)`: which method runs does not depend on peer data -- unless it is the reflective one
            if fn.attr in ("__getattribute__", "__getattr__", "__dict__"):
                out.append(canon(n))
        else:
            out.append(canon(fn))
    # reflective primitives anywhere in the function are dynamic callees in waiting
    for n in ast.walk(f):
        if isinstance(n, ast.Call) and isinstance(n.func, ast.Name) and n.func.id in ("getattr", "eval", "exec", "globals", "locals", "vars", "__import__"):
            t = canon(n)
            if t not in out:
                out.append(t)
    return out


def generate(src_dir):
    path = Path(src_dir) / "client.py"
    tree = ast.parse(path.read_text())
    chain, classes, action, final = list_line_facts(tree)
    epat, pick, lo, hi = epsv_facts(tree)
    ppat, pbody = pasv_facts(tree)
    table, slices, specials = unix_mode_facts(tree)
    skip, rec = lister_facts(tree)
    g_unix, g_win, mlsx_targets, g_mlsx = name_guards(tree)
    g_type = lister_type_guard(tree)
    T = emit.text
    out = [emit.HEADER.format(src=str(path))]
    out.append("Definition parser_facts_translator_ok : bool := true.\n")
    out.append(f"Definition list_line_chain : list (list Z) := {emit.lst([T(c) for c in chain])}.")
    out.append(f"Definition list_line_funnel : list (list Z) := {emit.lst([T(c) for c in classes])}.")
    out.append(f"Definition list_line_handler : list Z := {T(action)}.")
    out.append(f"Definition list_line_final : list Z := {T(final)}.\n")
    out.append(f"Definition epsv_regex : list Z := {T(epat)}.")
    out.append(f"Definition epsv_pick : Z := {emit.z(pick)}.")
    out.append(f"Definition epsv_slice : Z * Z := ({emit.z(lo)}, {emit.z(hi)}).\n")
    out.append(f"Definition pasv_regex : list Z := {T(ppat)}.")
    out.append(f"Definition pasv_body : list (list Z) := {emit.lst([T(s) for s in pbody])}.\n")
    out.append("Definition unix_rw_table : list (list Z * Z) := " + emit.lst([f"({T(k)}, {emit.z(v)})" for k, v in table]) + ".")
    out.append("Definition unix_rw_slices : list (Z * Z * Z) := " + emit.lst([f"({emit.z(a)}, {emit.z(b)}, {emit.z(c)})" for a, b, c in slices]) + ".")
    out.append("Definition unix_special : list (Z * list (Z * Z)) := "
               + emit.lst([f"({emit.z(i)}, {emit.lst([f'({emit.z(ord(ch))}, {emit.z(v)})' for ch, v in ps])})" for i, ps in specials]) + ".\n")
    out.append(f"Definition lister_skip : list (list Z) := {emit.lst([T(s) for s in skip])}.")
    out.append(f"Definition lister_recursion_test : list Z := {T(rec)}.")
    out.append("\n(* the guards of the F12 repair: `<test>:<class raised>`, empty when the statement is absent *)")
    out.append(f"Definition unix_name_guard : list Z := {T(g_unix)}.")
    out.append(f"Definition windows_name_guard : list Z := {T(g_win)}.")
    out.append(f"Definition mlsx_partition_targets : list Z := {T(mlsx_targets)}.")
    out.append(f"Definition mlsx_name_guard : list Z := {T(g_mlsx)}.")
    out.append(f"Definition lister_type_guard : list Z := {T(g_type)}.")
    out.append("\n(* how peer bytes become text: (file, function, decoding call) *)")
    out.append("Definition decode_sites : list (list Z * list Z * list Z) := "
               + emit.lst([f"({T(a)}, {T(b)}, {T(c)})" for a, b, c in decode_sites(src_dir)]) + ".")
    out.append("\n(* what a control line can make the dispatcher call: every expression a dynamically determined callee is bound to (locals alpha-renamed) *)")
    out.append(f"Definition dispatch_dynamic_callees : list (list Z) := {emit.lst([T(c) for c in dispatch_callees(src_dir)])}.")
    return "\n".join(out) + "\n"
