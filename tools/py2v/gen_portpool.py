"""Gen/PortPool.v: structural facts for C11 (passive data-port pool).

* errors.py: every class with its bases (the model needs `NoAvailablePort <= OSError`);
* Server._start_passive_server: the statements of the `try` inside `while True` and its except
  ladder (class -> normalised actions), whether there is a finally/else;
* pasv / epsv: the guard around the start-up and the except clause around `await coro`.

Pure ast walk; fail closed (Unclassified) on any statement that is not recognised."""
import ast
from pathlib import Path

from . import emit


class Unclassified(Exception):
    pass


def S(s):
    return '"' + s.replace('"', '""') + '"'


def slist(xs):
    return "[" + "; ".join(S(x) for x in xs) + "]"


def src(n):
    return ast.unparse(n)


def class_bases(errors_py):
    tree = ast.parse(errors_py.read_text())
    rows = []
    for n in tree.body:
        if isinstance(n, ast.ClassDef):
            rows.append((n.name, [src(b) for b in n.bases]))
    if not any(name == "NoAvailablePort" for name, _ in rows):
        raise Unclassified("errors.NoAvailablePort not found")
    return rows


def norm_try_stmt(st):
    t = src(st)
    if t == "(priority, port) = self.available_data_ports.get_nowait()" or t == "priority, port = self.available_data_ports.get_nowait()":
        return "get"
    if isinstance(st, ast.If) and src(st.test) == "port in viewed_ports" and not st.orelse and len(st.body) == 1:
        b = st.body[0]
        if isinstance(b, ast.Raise) and b.exc is not None and b.cause is None:
            return "viewed?raise:" + src(b.exc)
    if t == "viewed_ports.add(port)":
        return "view"
    if (
        isinstance(st, ast.Assign)
        and len(st.targets) == 1
        and src(st.targets[0]) == "passive_server"
        and isinstance(st.value, ast.Await)
        and isinstance(st.value.value, ast.Call)
        and src(st.value.value.func) == "asyncio.start_server"
    ):
        args = st.value.value.args
        kws = {k.arg: src(k.value) for k in st.value.value.keywords if k.arg is not None}
        if len(args) >= 3 and src(args[2]) == "port":
            if "start_serving" not in kws:
                return "await:start_server"
            if kws["start_serving"] == "False":
                return "await:start_server:noserve"  # bound, not serving: no suspension after the bind in here
    # repaired shape: the second suspension point happens while the coroutine holds the handle
    if t == "if start_serving:\n    await passive_server.start_serving()" or t == "await passive_server.start_serving()":
        return "await:start_serving"
    # repaired shape: a listener stored meanwhile by an overlapping PASV/EPSV is kept, this one is given back
    if isinstance(st, ast.If) and src(st.test) == "connection.future.passive_server.done()" and not st.orelse:
        acts = []
        for b in st.body:
            tb = src(b)
            if tb == "passive_server.close()":
                acts.append("close")
            elif tb.startswith("self.available_data_ports.put_nowait(") and isinstance(b.value.args[0], ast.Tuple):
                a = b.value.args[0]
                acts.append(f"put:{src(a.elts[0])}:{src(a.elts[1])}")
            elif isinstance(b, ast.Return) and b.value is not None:
                acts.append("return:" + src(b.value))
            elif tb.startswith("logger."):
                pass
            else:
                raise Unclassified(f"_start_passive_server recheck statement: {tb}")
        return "recheck:" + ",".join(acts)
    if t == "connection.passive_server_port = port":
        return "setport"
    if isinstance(st, ast.Break):
        return "break"
    if t.startswith("logger."):
        return None
    raise Unclassified(f"_start_passive_server try statement: {t}")


def norm_handler_stmt(st):
    t = src(st)
    if isinstance(st, ast.Raise):
        if st.exc is None:
            return "raise"
        return "raise:" + src(st.exc)
    if t.startswith("self.available_data_ports.put_nowait("):
        a = st.value.args[0]
        if isinstance(a, ast.Tuple) and len(a.elts) == 2:
            return f"put:{src(a.elts[0])}:{src(a.elts[1])}"
    if isinstance(st, ast.If) and not st.orelse and len(st.body) == 1 and isinstance(st.body[0], ast.Raise) and st.body[0].exc is None:
        if src(st.test) == "err.errno != errno.EADDRINUSE":
            return "unless:EADDRINUSE=>raise"
    if t == "if passive_server is not None:\n    passive_server.close()":
        return "closeif:passive_server"
    if t.startswith("logger."):
        return None
    raise Unclassified(f"_start_passive_server except statement: {t}")


POOL = "self.available_data_ports"


def pool_polarity(test):
    """True: the test holds iff a pool is configured (`<pool> is not None`); False: iff none is (`<pool> is None`);
    None: anything else (truthiness, `==`, another attribute ... are NOT the same test and are not accepted)."""
    if isinstance(test, ast.UnaryOp) and isinstance(test.op, ast.Not):
        p = pool_polarity(test.operand)
        return None if p is None else not p
    if isinstance(test, ast.Compare) and len(test.ops) == 1 and isinstance(test.ops[0], (ast.Is, ast.IsNot)):
        a, b = test.left, test.comparators[0]
        none = lambda e: isinstance(e, ast.Constant) and e.value is None
        if (src(a) == POOL and none(b)) or (none(a) and src(b) == POOL):
            return isinstance(test.ops[0], ast.IsNot)
    return None


def same(a, b):
    return ast.dump(a) == ast.dump(b)


def pool_branches(top):
    """Normalise the statements of _start_passive_server to the ONE shape the ladder extraction reads,

        if self.available_data_ports is not None: POOL_BRANCH   else: OTHER_BRANCH   ; REST

    and return (POOL_BRANCH, OTHER_BRANCH, REST).  Each rule is an equivalence of Python programs (the test has no
    effect and is evaluated exactly once, first, in every variant); a shape that fits none of them fails closed.
      N1  `if c: A else: B ; R`              with c = `P is not None` | `P is None` | `None is [not] P` | `not c'`:
                                             polarity resolved, branches swapped when c means "no pool".
      N2  `if c: A` ; T          (no else, the last statement of A is `return`/`raise`, so control never falls from A into T)
                                             == `if c: A else: T`  (the rest of the body IS the other branch; REST = []).
      N3  after N2, when both branches end in the structurally SAME `return`/`raise` statement E (A = A';E, T = T';E):
                                             == `if c: A' else: T'` ; E   (tail merged; REST = [E]).
      N4  when REST = [], a pool branch `viewed_ports = set(); while True: ..; return passive_server`:
                                             the trailing `return passive_server` is REST of that branch only.
    What REST and OTHER_BRANCH do is outside the ladder (as before: the facts describe the pool branch); they are
    returned so that the caller can refuse pool accesses in them."""
    if not top or not isinstance(top[0], ast.If):
        raise Unclassified("_start_passive_server: outer `if self.available_data_ports is not None` not found")
    node, tail = top[0], list(top[1:])
    pol = pool_polarity(node.test)
    if pol is None:
        raise Unclassified("_start_passive_server: outer `if self.available_data_ports is not None` not found")
    then, other, rest = list(node.body), list(node.orelse), tail
    if not other:
        # N2: guard with an early exit, the rest of the function body is the other branch
        if not (then and isinstance(then[-1], (ast.Return, ast.Raise)) and tail):
            raise Unclassified("_start_passive_server: `if` on the pool without `else` whose body does not end in return/raise")
        other, rest = tail, []
        # N3: one common final return/raise
        if isinstance(other[-1], (ast.Return, ast.Raise)) and same(then[-1], other[-1]):
            rest = [then[-1]]
            then, other = then[:-1], other[:-1]
    pool, nopool = (then, other) if pol else (other, then)
    if not rest and pool and isinstance(pool[-1], ast.Return) and src(pool[-1]) == "return passive_server":
        # N4: nothing follows the `if`, the pool branch returns the listener itself
        rest, pool = [pool[-1]], pool[:-1]
    return pool, nopool, rest


def touches_pool(stmts):
    return any(
        isinstance(n, ast.Attribute) and n.attr == "available_data_ports" for s in stmts for n in ast.walk(s)
    )


def start_passive_facts(fn):
    # if self.available_data_ports is not None: viewed_ports = set(); while True: try: ...
    top = [s for s in fn.body if not (isinstance(s, ast.Expr) and isinstance(s.value, ast.Constant))]
    body, nopool, rest = pool_branches(top)
    if touches_pool(nopool) or touches_pool(rest):
        raise Unclassified("_start_passive_server: the pool is accessed outside the `is not None` branch")
    # statements that only prepare the keyword arguments of start_server (they do not touch the pool)
    PRELUDE = ("extra = dict(self._start_server_extra_arguments)", "start_serving = extra.pop('start_serving', True)")
    body = [b for b in body if src(b) not in PRELUDE]
    if not (len(body) == 2 and src(body[0]) == "viewed_ports = set()" and isinstance(body[1], ast.While) and src(body[1].test) == "True"):
        raise Unclassified("_start_passive_server: `viewed_ports = set(); while True:` not found")
    loop = body[1]
    lbody = list(loop.body)
    pre = []
    if len(lbody) == 2 and src(lbody[0]) == "passive_server = None":
        pre = ["init:none"]  # the handle of a listener bound in this iteration, for the handlers
        lbody = lbody[1:]
    if len(lbody) != 1 or not isinstance(lbody[0], ast.Try) or loop.orelse:
        raise Unclassified("_start_passive_server: loop body is not a single try")
    tr = lbody[0]
    stmts = pre + [x for x in (norm_try_stmt(s) for s in tr.body) if x is not None]
    handlers = []
    for h in tr.handlers:
        typ = src(h.type) if h.type is not None else "<bare>"
        acts = []
        body = list(h.body)
        while body:
            st = body.pop(0)
            # `if err.errno == errno.EADDRINUSE: continue` + `raise`  ==  `if err.errno != errno.EADDRINUSE: raise`
            # (the try is the only statement of the loop body, so `continue` and falling off the handler coincide)
            if (
                isinstance(st, ast.If) and not st.orelse and len(st.body) == 1 and isinstance(st.body[0], ast.Continue)
                and src(st.test) == "err.errno == errno.EADDRINUSE"
                and body and isinstance(body[0], ast.Raise) and body[0].exc is None and len(body) == 1
            ):
                body.pop(0)
                acts.append("unless:EADDRINUSE=>raise")
                continue
            x = norm_handler_stmt(st)
            if x is not None:
                acts.append(x)
        handlers.append((typ, acts))
    return stmts, handlers, bool(tr.finalbody), bool(tr.orelse)


def pasv_facts(fn):
    """the `if not connection.future.passive_server.done():` block: coro = ...; try: connection.passive_server = await coro
    except <cls>: <actions>"""
    for st in fn.body:
        if isinstance(st, ast.If) and src(st.test) == "not connection.future.passive_server.done()":
            trs = [s for s in st.body if isinstance(s, ast.Try)]
            if len(trs) != 1:
                raise Unclassified(f"{fn.name}: expected one try in the start-up branch")
            tr = trs[0]
            if [src(s) for s in tr.body] != ["connection.passive_server = await coro"] or tr.finalbody or tr.orelse:
                raise Unclassified(f"{fn.name}: try body is not `connection.passive_server = await coro`")
            out = []
            for h in tr.handlers:
                acts = []
                for s in h.body:
                    t = src(s)
                    if isinstance(s, ast.Return):
                        acts.append("return:" + src(s.value))
                    elif isinstance(s, ast.Expr) and isinstance(s.value, ast.Call) and src(s.value.func) == "connection.response":
                        acts.append("response:" + ast.literal_eval(s.value.args[0]))
                    else:
                        raise Unclassified(f"{fn.name}: except action {t}")
                out.append((src(h.type) if h.type is not None else "<bare>", acts))
            return out
    raise Unclassified(f"{fn.name}: guard `if not connection.future.passive_server.done()` not found")


def generate(src_dir):
    src_dir = Path(src_dir)
    bases = class_bases(src_dir / "errors.py")
    tree = ast.parse((src_dir / "server.py").read_text())
    server = [n for n in tree.body if isinstance(n, ast.ClassDef) and n.name == "Server"][0]
    methods = {n.name: n for n in server.body if isinstance(n, (ast.FunctionDef, ast.AsyncFunctionDef))}
    for need in ("_start_passive_server", "pasv", "epsv"):
        if need not in methods:
            raise Unclassified(f"Server.{need} not found")
    stmts, handlers, has_finally, has_else = start_passive_facts(methods["_start_passive_server"])
    out = emit.HEADER.format(src=str(src_dir))
    out += "From Coq Require Import String.\nOpen Scope string_scope.\n\n"
    out += "Definition translator_ok : bool := true.\n\n"
    out += "(* errors.py: class -> bases *)\n"
    out += "Definition class_bases : list (string * list string) :=\n  ["
    out += "; ".join(f"({S(n)}, {slist(b)})" for n, b in bases) + "].\n\n"
    out += "(* Server._start_passive_server: statements of the try inside `while True`, its except ladder *)\n"
    out += f"Definition sps_try : list string := {slist(stmts)}.\n"
    out += "Definition sps_handlers : list (string * list string) :=\n  ["
    out += "; ".join(f"({S(t)}, {slist(a)})" for t, a in handlers) + "].\n"
    out += f"Definition sps_has_finally : bool := {emit.boolean(has_finally)}.\n"
    out += f"Definition sps_has_else : bool := {emit.boolean(has_else)}.\n"
    giveback = any(t == "BaseException" for t, _ in handlers)
    recheck = any(x.startswith("recheck:") for x in stmts)
    out += "(* which shape the model is run with; check_ladder (Model/PortPool.v) accepts exactly the shapes that justify them *)\n"
    out += f"Definition sps_giveback : bool := {emit.boolean(giveback)}.\n"
    out += f"Definition sps_recheck : bool := {emit.boolean(recheck)}.\n\n"
    out += "(* pasv / epsv: except clauses around `connection.passive_server = await coro` *)\n"
    out += "Definition passive_except : list (string * list (string * list string)) :=\n  ["
    rows = []
    for name in ("pasv", "epsv"):
        hs = pasv_facts(methods[name])
        rows.append(f"({S(name)}, [" + "; ".join(f"({S(t)}, {slist(a)})" for t, a in hs) + "])")
    out += "; ".join(rows) + "].\n"
    return out
