"""py2v: regenerate coq/Gen/*.v from the current /repo sources (fail-closed).

usage: python -m tools.py2v <repo/src/aioftp> <outdir>
Every generator returns Coq text; a generator that meets a construct it cannot classify
raises Unclassified, which is turned into `Definition translator_ok := false` plus the
location, so that every dependent proof obligation breaks instead of silently passing."""
import importlib
import sys
import traceback
from pathlib import Path

from . import emit

NAMES = {
    "gen_unicode": "Unicode",
    "gen_consts": "Consts",
    "gen_dispatch": "Dispatch",
    "gen_workers": "Workers",
    "gen_pathio": "PathIOTable",
    "gen_logging": "Logging",
    "gen_wiring": "Wiring",
    "gen_usermgr": "UserMgr",
    "gen_timeouts": "Timeouts",
    "gen_portpool": "PortPool",
}


def discover():
    """every tools/py2v/gen_*.py is a generator; output name from NAMES, the module's OUT, or CamelCase"""
    out = []
    for f in sorted(Path(__file__).parent.glob("gen_*.py")):
        mod = f.stem
        out.append((NAMES.get(mod) or "".join(w.capitalize() for w in mod[4:].split("_")), mod))
    # Unicode first (Lib/PyStr depends on it), stable order otherwise
    out.sort(key=lambda x: (x[0] != "Unicode", x[0]))
    return out


GENERATORS = discover()


def main():
    src = Path(sys.argv[1])
    out = Path(sys.argv[2])
    out.mkdir(parents=True, exist_ok=True)
    rc = 0
    # pre-pass (tools/py2v/normalize.py): rewrite harmless spelling variants into the shapes of the pinned source
    try:
        from . import normalize
        import ast as _ast

        real = src
        root = Path(__file__).resolve().parents[2]
        work = root / "build" / "normsrc" if out.resolve() == (root / "coq" / "Gen").resolve() else out.parent / (out.name + "_normsrc")
        src = normalize.normalized_dir(real, work)
        for f in sorted(real.glob("*.py")):
            if _ast.unparse(_ast.parse(f.read_text())) + "\n" != (src / f.name).read_text():
                print(f"py2v: normalize: {f.name}: rewritten to normal form before translation")
    except Exception as e:  # the generators then see the raw source and fail closed on their own
        print(f"py2v: normalize: skipped ({type(e).__name__}: {e})")
        src = Path(sys.argv[1])
    for name, modname in GENERATORS:
        try:
            mod = importlib.import_module(f"tools.py2v.{modname}")
        except ModuleNotFoundError:
            continue
        try:
            if name == "Unicode":
                text = mod.generate()
            else:
                text = mod.generate(src)
        except Exception as e:  # fail closed
            msg = "".join(traceback.format_exception_only(type(e), e)).strip().replace('"', "'")
            print(f"py2v: {name}: FAILED CLOSED: {msg}")
            traceback.print_exc()
            text = emit.HEADER.format(src=str(src)) + (
                f"(* translator failed closed: {msg.replace('*)', '* )')} *)\n"
                "Definition translator_ok : bool := false.\n"
            )
            rc = 2
        changed = emit.write_if_changed(out / f"{name}.v", text)
        print(f"py2v: {name}.v {'updated' if changed else 'unchanged'}")
    sys.exit(rc)


main()
