"""py2v: regenerate coq/Gen/*.v from the current /repo sources (fail-closed).

usage: python -m tools.py2v <repo/src/aioftp> <outdir>
Every generator returns Coq text; a generator that meets a construct it cannot classify
raises Unclassified, which is turned into `Definition translator_ok := false` plus the
location, so that every dependent proof obligation breaks instead of silently passing."""
import importlib
import sys
import traceback
from pathlib import Path

from . import emit

GENERATORS = [
    ("Unicode", "gen_unicode"),
    ("Consts", "gen_consts"),
    ("Dispatch", "gen_dispatch"),
    ("Workers", "gen_workers"),
    ("PathIOTable", "gen_pathio"),
    ("Logging", "gen_logging"),
    ("Wiring", "gen_wiring"),
    ("UserMgr", "gen_usermgr"),
    ("PortPool", "gen_portpool"),
]


def main():
    src = Path(sys.argv[1])
    out = Path(sys.argv[2])
    out.mkdir(parents=True, exist_ok=True)
    rc = 0
    for name, modname in GENERATORS:
        try:
            mod = importlib.import_module(f"tools.py2v.{modname}")
        except ModuleNotFoundError:
            continue
        try:
            if name == "Unicode":
                text = mod.generate()
            else:
                text = mod.generate(src)
        except Exception as e:  # fail closed
            msg = "".join(traceback.format_exception_only(type(e), e)).strip().replace('"', "'")
            print(f"py2v: {name}: FAILED CLOSED: {msg}")
            traceback.print_exc()
            text = emit.HEADER.format(src=str(src)) + (
                f"(* translator failed closed: {msg.replace('*)', '* )')} *)\n"
                "Definition translator_ok : bool := false.\n"
            )
            rc = 2
        changed = emit.write_if_changed(out / f"{name}.v", text)
        print(f"py2v: {name}.v {'updated' if changed else 'unchanged'}")
    sys.exit(rc)


main()
