"""Gen/Resolve.v: where real paths come from (C02, C04).

1. Server.get_paths as a function of (connection.user.base_path, connection.current_directory, path):
     gp_decorators    its decorators (textual)
     gp_params        its parameters
     gp_conn_reads    attribute chains READ from the parameter `connection` (e.g. "user.base_path")
     gp_conn_writes   attributes of `connection` stored / deleted / augmented
     gp_conn_other    every other use of the name `connection` (passed to a call, subscripted, tested with `in`, ...)
     gp_free_names    names loaded that are neither parameters, locals nor builtins (module-level state, helpers)
     gp_scope         `global` / `nonlocal` statements, nested function / class definitions, attribute stores on
                      anything that is not a local (function attributes used as a cache, ...)
   The C02 models take get_paths to be a function of (base_path, current_directory, path); that is sound only when
   these facts say so (Props/C02.v: C02_get_paths_reads_only_user_and_cwd).

2. the transfer workers (nested *_worker functions of list / mlsd / retr / stor): the path they hand to the backend
   must be the one the handler resolved when the request was authorised, not one resolved again when the data
   connection has arrived:
     worker_paths     worker -> (owner handler,
                                 `real_path` is a free variable of the worker (closure of the handler),
                                 the worker calls get_paths itself,
                                 names bound inside the worker)
     handler_resolves owner -> (number of bindings of real_path in the handler body itself,
                                the binding is  real_path, _ = self.get_paths(connection, rest)  with the handler's own
                                unmodified parameters, the binding precedes the statement that creates the worker task,
                                names among {connection, rest, real_path} rebound elsewhere in handler or worker)

3. body_resolves_first: for every Server method whose own body calls get_paths, whether its first executing statement is the
   resolution itself (no await before it): with PathPermissions as the innermost decorator this makes the permission
   decision and the handler's own resolution of `rest` see the same working directory and user (C04).

Pure ast walk.  Fail closed: anything that does not fit raises Unclassified."""
import ast
import builtins
from pathlib import Path

from . import emit


class Unclassified(Exception):
    pass


def S(s):
    return '"' + s.replace('"', '""') + '"'


def slist(xs):
    return "[" + "; ".join(S(x) for x in xs) + "]"


def uniq(xs):
    out = []
    for x in xs:
        if x not in out:
            out.append(x)
    return out


def chain_of(node):
    """Attribute chain rooted at a Name: connection.user.base_path -> ("connection", ["user", "base_path"])"""
    attrs = []
    while isinstance(node, ast.Attribute):
        attrs.append(node.attr)
        node = node.value
    if isinstance(node, ast.Name):
        return node.id, attrs[::-1]
    return None, None


def bound_names(fn):
    """names bound in the function's own scope (assignment targets, for targets, with-as, imports, walrus, except-as)"""
    out = []

    def targets(t):
        if isinstance(t, ast.Name):
            out.append(t.id)
        elif isinstance(t, (ast.Tuple, ast.List)):
            for e in t.elts:
                targets(e)
        elif isinstance(t, ast.Starred):
            targets(t.value)

    def walk(n, top):
        if not top and isinstance(n, (ast.FunctionDef, ast.AsyncFunctionDef, ast.ClassDef)):
            out.append(n.name)
            return
        if not top and isinstance(n, ast.Lambda):
            return
        if isinstance(n, ast.Assign):
            for t in n.targets:
                targets(t)
        elif isinstance(n, (ast.AugAssign, ast.AnnAssign)):
            targets(n.target)
        elif isinstance(n, (ast.For, ast.AsyncFor)):
            targets(n.target)
        elif isinstance(n, (ast.With, ast.AsyncWith)):
            for i in n.items:
                if i.optional_vars is not None:
                    targets(i.optional_vars)
        elif isinstance(n, ast.NamedExpr):
            targets(n.target)
        elif isinstance(n, ast.ExceptHandler) and n.name:
            out.append(n.name)
        elif isinstance(n, (ast.Import, ast.ImportFrom)):
            for a in n.names:
                out.append((a.asname or a.name).split(".")[0])
        elif isinstance(n, ast.comprehension):
            targets(n.target)
        for c in ast.iter_child_nodes(n):
            walk(c, False)

    walk(fn, True)
    return out


def params_of(fn):
    a = fn.args
    return [x.arg for x in a.posonlyargs + a.args + a.kwonlyargs] + ([a.vararg.arg] if a.vararg else []) + ([a.kwarg.arg] if a.kwarg else [])


def get_paths_facts(fn):
    return get_paths_facts_for(fn, 0)


def get_paths_facts_for(fn, conn_index):
    """facts about the uses of the parameter number conn_index (the connection) inside fn"""
    params = params_of(fn)
    if len(params) <= conn_index:
        raise Unclassified(f"{fn.name}: parameter {conn_index} missing")
    conn = params[conn_index]
    local = set(bound_names(fn)) | set(params)
    reads, writes, other, free, scope = [], [], [], [], []
    consumed = set()  # ids of Name nodes that are the root of a classified attribute chain

    for n in ast.walk(fn):
        if n is not fn and isinstance(n, (ast.FunctionDef, ast.AsyncFunctionDef, ast.ClassDef, ast.Lambda)):
            scope.append("nested " + type(n).__name__ + " " + getattr(n, "name", "<lambda>"))
        if isinstance(n, (ast.Global, ast.Nonlocal)):
            scope.append(type(n).__name__.lower() + " " + ",".join(n.names))
    # attribute chains: only the outermost attribute of a chain is recorded (walk with parent links)
    parents = {}
    for n in ast.walk(fn):
        for c in ast.iter_child_nodes(n):
            parents[id(c)] = n
    for n in ast.walk(fn):
        if not isinstance(n, ast.Attribute):
            continue
        p = parents.get(id(n))
        if isinstance(p, ast.Attribute) and p.value is n:
            continue  # inner link of a longer chain
        root, attrs = chain_of(n)
        if root is None:
            # attribute of a call result etc.: stores there are suspicious only when they are stores
            if isinstance(n.ctx, (ast.Store, ast.Del)):
                scope.append("store " + ast.unparse(n))
            continue
        node = n
        while isinstance(node, ast.Attribute):
            node = node.value
        if root == conn:
            consumed.add(id(node))
            if isinstance(n.ctx, (ast.Store, ast.Del)):
                writes.append(".".join(attrs))
            else:
                # a method call on the chain (connection.foo.bar(...)) : the callee chain is recorded as a read as well
                reads.append(".".join(attrs))
        elif isinstance(n.ctx, (ast.Store, ast.Del)) and root not in local:
            scope.append("store " + ast.unparse(n))
        elif isinstance(n.ctx, (ast.Store, ast.Del)) and root in params:
            scope.append("store " + ast.unparse(n))
    for n in ast.walk(fn):
        if isinstance(n, ast.AugAssign) and isinstance(n.target, ast.Attribute):
            root, attrs = chain_of(n.target)
            if root == conn:
                writes.append(".".join(attrs))
        if isinstance(n, ast.Name):
            if n.id == conn and id(n) not in consumed:
                p = parents.get(id(n))
                other.append(ast.unparse(p) if p is not None else conn)
            elif isinstance(n.ctx, ast.Load) and n.id not in local and not hasattr(builtins, n.id):
                free.append(n.id)
            elif isinstance(n.ctx, (ast.Store, ast.Del)) and n.id in params and n.id == conn:
                other.append("rebinds " + conn)
    decos = [ast.unparse(d) for d in fn.decorator_list]
    return decos, params, uniq(reads), uniq(writes), uniq(other), uniq(free), uniq(scope)


WORKERS = {"list_worker": "list", "mlsd_worker": "mlsd", "retr_worker": "retr", "stor_worker": "stor"}


def calls_get_paths(fn):
    for n in ast.walk(fn):
        if isinstance(n, ast.Call) and isinstance(n.func, ast.Attribute) and n.func.attr == "get_paths":
            return True
        if isinstance(n, ast.Attribute) and n.attr == "get_paths" and not isinstance(n.ctx, ast.Load):
            return True
    return False


def own_statements(fn):
    """statements of the function's own body, recursively through compound statements, NOT into nested defs"""
    out = []

    def walk(stmts):
        for st in stmts:
            out.append(st)
            if isinstance(st, (ast.FunctionDef, ast.AsyncFunctionDef, ast.ClassDef)):
                continue
            for field in ("body", "orelse", "finalbody"):
                sub = getattr(st, field, None)
                if isinstance(sub, list):
                    walk([x for x in sub if isinstance(x, ast.stmt)])
            for h in getattr(st, "handlers", []) or []:
                walk(h.body)

    walk(fn.body)
    return out


def is_resolution(st, params):
    """real_path, <anything> = self.get_paths(connection, rest) with the handler's own second and third parameter"""
    if not isinstance(st, ast.Assign) or len(st.targets) != 1:
        return False
    t = st.targets[0]
    if not (isinstance(t, (ast.Tuple, ast.List)) and len(t.elts) == 2 and isinstance(t.elts[0], ast.Name) and t.elts[0].id == "real_path"):
        return False
    v = st.value
    if not (isinstance(v, ast.Call) and isinstance(v.func, ast.Attribute) and v.func.attr == "get_paths" and isinstance(v.func.value, ast.Name)
            and v.func.value.id in (params[0], "cls", "self") and not v.keywords and len(v.args) == 2):
        return False
    return all(isinstance(a, ast.Name) for a in v.args) and [a.id for a in v.args] == params[1:3]


def binds(st, name):
    class V(ast.NodeVisitor):
        hit = False

        def visit_Name(self, n):
            if n.id == name and isinstance(n.ctx, (ast.Store, ast.Del)):
                self.hit = True

        def visit_FunctionDef(self, n):
            pass

        visit_AsyncFunctionDef = visit_FunctionDef
        visit_ClassDef = visit_FunctionDef
        visit_Lambda = visit_FunctionDef

    v = V()
    # visit the statement's own expressions/targets but not nested statements (they are listed separately)
    for field, value in ast.iter_fields(st):
        if field in ("body", "orelse", "finalbody", "handlers"):
            continue
        for x in value if isinstance(value, list) else [value]:
            if isinstance(x, ast.AST):
                v.visit(x)
    return v.hit


def worker_facts(server_cls):
    methods = {n.name: n for n in server_cls.body if isinstance(n, (ast.FunctionDef, ast.AsyncFunctionDef))}
    wrows, hrows = [], []
    for wname, owner in WORKERS.items():
        h = methods.get(owner)
        if h is None:
            raise Unclassified(f"handler {owner} not found")
        w = next((n for n in h.body if isinstance(n, (ast.FunctionDef, ast.AsyncFunctionDef)) and n.name == wname), None)
        if w is None:
            raise Unclassified(f"{wname} is not defined at the top of {owner}()")
        hparams = params_of(h)
        wparams = params_of(w)
        if len(hparams) < 3 or len(wparams) < 3:
            raise Unclassified(f"{owner}/{wname}: unexpected parameter list")
        wbound = uniq(bound_names(w))
        uses_real = any(isinstance(n, ast.Name) and n.id == "real_path" for n in ast.walk(w))
        free_real = uses_real and "real_path" not in wbound and "real_path" not in wparams
        wrows.append(f"({S(wname)}, ({S(owner)}, ({emit.boolean(free_real)}, ({emit.boolean(calls_get_paths(w))}, {slist(wbound)}))))")
        stmts = own_statements(h)
        bindings = [st for st in stmts if binds(st, "real_path")]
        good = len(bindings) == 1 and is_resolution(bindings[0], hparams) and bindings[0] in h.body
        # the statement that creates the worker coroutine / task
        spawn_idx = None
        for i, st in enumerate(h.body):
            if any(isinstance(n, ast.Call) and isinstance(n.func, ast.Name) and n.func.id == wname for n in ast.walk(st)) and not isinstance(st, (ast.FunctionDef, ast.AsyncFunctionDef)):
                spawn_idx = i
                break
        if spawn_idx is None:
            raise Unclassified(f"{owner}(): no statement calls {wname}")
        before = good and h.body.index(bindings[0]) < spawn_idx
        rebound = []
        for name in (hparams[1], hparams[2]):
            if any(binds(st, name) for st in stmts) or name in wbound:
                rebound.append(name)
        if wparams[1:3] != hparams[1:3]:
            rebound.append("worker parameters differ: " + ",".join(wparams))
        # the worker must be called with the handler's own (self, connection, rest)
        call = next(n for st in h.body[spawn_idx:spawn_idx + 1] for n in ast.walk(st) if isinstance(n, ast.Call) and isinstance(n.func, ast.Name) and n.func.id == wname)
        if [ast.unparse(a) for a in call.args] != hparams[:3] or call.keywords:
            rebound.append("worker called with " + ast.unparse(call))
        hrows.append(f"({S(owner)}, ({len(bindings)}%nat, ({emit.boolean(good)}, ({emit.boolean(before)}, {slist(rebound)}))))")
    return wrows, hrows


def body_resolves_first(server_cls):
    """for every method of Server whose own body (not a nested function) calls get_paths: is the first statement that
    executes (nested definitions and a docstring skipped) a plain assignment from self.get_paths(connection, rest) on the
    method's own parameters, with no await in it?  Then nothing can run between the innermost decorator's decision and
    the body's own resolution of `rest`."""
    rows = []
    for m in server_cls.body:
        if not isinstance(m, (ast.FunctionDef, ast.AsyncFunctionDef)) or m.name == "get_paths":
            continue
        own = own_statements(m)
        calls = [st for st in own if not isinstance(st, (ast.FunctionDef, ast.AsyncFunctionDef, ast.ClassDef)) and any(
            isinstance(n, ast.Call) and isinstance(n.func, ast.Attribute) and n.func.attr == "get_paths" for n in ast.walk(st))]
        if not calls:
            continue
        params = params_of(m)
        first = None
        for st in m.body:
            if isinstance(st, (ast.FunctionDef, ast.AsyncFunctionDef, ast.ClassDef)):
                continue
            if isinstance(st, ast.Expr) and isinstance(st.value, ast.Constant) and isinstance(st.value.value, str):
                continue
            first = st
            break
        ok = False
        if isinstance(first, ast.Assign) and not any(isinstance(n, (ast.Await, ast.Yield, ast.YieldFrom)) for n in ast.walk(first)):
            v = first.value
            ok = (isinstance(v, ast.Call) and isinstance(v.func, ast.Attribute) and v.func.attr == "get_paths" and isinstance(v.func.value, ast.Name)
                  and v.func.value.id == params[0] and not v.keywords and len(v.args) == 2
                  and all(isinstance(a, ast.Name) for a in v.args) and [a.id for a in v.args] == params[1:3])
        rows.append(f"({S(m.name)}, {emit.boolean(ok)})")
    return rows


def pathperm_facts(tree):
    """attribute chains of `connection` read / written by PathPermissions.__call__.wrapper, and whether the permission
    object tested by getattr is bound exactly once, by `await connection.user.get_permissions(virtual_path)`"""
    cls = next((n for n in tree.body if isinstance(n, ast.ClassDef) and n.name == "PathPermissions"), None)
    if cls is None:
        raise Unclassified("class PathPermissions not found")
    call = next((n for n in cls.body if isinstance(n, ast.FunctionDef) and n.name == "__call__"), None)
    wrapper = next((n for n in (call.body if call else []) if isinstance(n, ast.AsyncFunctionDef)), None)
    if wrapper is None:
        raise Unclassified("PathPermissions.__call__: no async wrapper")
    _decos, params, reads, writes, other, _free, _scope = get_paths_facts_for(wrapper, 1)
    tested = None
    for n in ast.walk(wrapper):
        if isinstance(n, ast.Call) and isinstance(n.func, ast.Name) and n.func.id == "getattr" and n.args and isinstance(n.args[0], ast.Name):
            tested = n.args[0].id
    if tested is None:
        raise Unclassified("PathPermissions wrapper: no getattr(<permission object>, <flag>)")
    binds_ = [st for st in own_statements(wrapper) if binds(st, tested)]
    direct = False
    if len(binds_) == 1 and isinstance(binds_[0], ast.Assign) and isinstance(binds_[0].value, ast.Await):
        c = binds_[0].value.value
        direct = (isinstance(c, ast.Call) and ast.unparse(c.func) == f"{params[1]}.user.get_permissions" and len(c.args) == 1 and not c.keywords
                  and isinstance(c.args[0], ast.Name) and binds_[0] in wrapper.body)
    return reads, writes, other, direct


def generate(src_dir):
    path = Path(src_dir) / "server.py"
    tree = ast.parse(path.read_text())
    classes = {n.name: n for n in tree.body if isinstance(n, ast.ClassDef)}
    if "Server" not in classes:
        raise Unclassified("class Server not found")
    srv = classes["Server"]
    gps = [n for n in srv.body if isinstance(n, (ast.FunctionDef, ast.AsyncFunctionDef)) and n.name == "get_paths"]
    if len(gps) != 1 or isinstance(gps[0], ast.AsyncFunctionDef):
        raise Unclassified("Server.get_paths: expected exactly one plain function")
    # nobody may replace it after the class body either
    for n in ast.walk(tree):
        if isinstance(n, ast.Attribute) and n.attr == "get_paths" and isinstance(n.ctx, (ast.Store, ast.Del)):
            raise Unclassified("get_paths is assigned to somewhere: " + ast.unparse(n))
    decos, params, reads, writes, other, free, scope = get_paths_facts(gps[0])
    wrows, hrows = worker_facts(srv)
    out = emit.HEADER.format(src=str(path))
    out += "From Coq Require Import String.\nOpen Scope string_scope.\n\n"
    out += "Definition translator_ok : bool := true.\n\n"
    out += "(* Server.get_paths *)\n"
    out += f"Definition gp_decorators : list string := {slist(decos)}.\n"
    out += f"Definition gp_params : list string := {slist(params)}.\n"
    out += f"Definition gp_conn_reads : list string := {slist(reads)}.\n"
    out += f"Definition gp_conn_writes : list string := {slist(writes)}.\n"
    out += f"Definition gp_conn_other : list string := {slist(other)}.\n"
    out += f"Definition gp_free_names : list string := {slist(free)}.\n"
    out += f"Definition gp_scope : list string := {slist(scope)}.\n\n"
    out += "(* worker -> (owner, (real_path is a closure variable, (calls get_paths itself, names bound in the worker))) *)\n"
    out += "Definition worker_paths : list (string * (string * (bool * (bool * list string)))) :=\n  [" + ";\n   ".join(wrows) + "].\n"
    out += "(* owner -> (bindings of real_path, (it is `real_path, _ = self.get_paths(connection, rest)`, (before the task is created, rebound names))) *)\n"
    out += "Definition handler_resolves : list (string * (nat * (bool * (bool * list string)))) :=\n  [" + ";\n   ".join(hrows) + "].\n"
    pr, pw, po, pdirect = pathperm_facts(tree)
    out += "(* PathPermissions.__call__.wrapper: attribute chains of `connection` read / written, other uses, and: the object tested by\n"
    out += "   getattr is bound once by `await connection.user.get_permissions(virtual_path)` *)\n"
    out += f"Definition pp_conn_reads : list string := {slist(pr)}.\n"
    out += f"Definition pp_conn_writes : list string := {slist(pw)}.\n"
    out += f"Definition pp_conn_other : list string := {slist(po)}.\n"
    out += f"Definition pp_lookup_direct : bool := {emit.boolean(pdirect)}.\n"
    out += "(* method whose own body calls get_paths -> its first executing statement is `.. = self.get_paths(connection, rest)` without await *)\n"
    out += "Definition body_resolves_first : list (string * bool) :=\n  [" + "; ".join(body_resolves_first(srv)) + "].\n"
    return out
