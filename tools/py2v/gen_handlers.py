"""Gen/Handlers.v: the BODY of every command handler of server.py (the methods named in
Server.commands_mapping) as a program in the statement language of coq/Lib/HandlerFacts.v,
interpreted by coq/Model/HandlerProg.v (C05: the hand-written handler bodies of Model/Session.v
are the denotations of these programs).

Pure ast walk.  Fail closed PER STATEMENT: a statement (expression, condition) that matches none of
the shapes below becomes HOther (EOther, COther) "<normalised source text>", which has no
denotation, so the reference-program obligation and the denotation theorem break.

Normalisations (see the header of HandlerFacts.v): local names, tuple assignments, single literal
bindings inlined, message texts opaque, dead lets dropped, runs of independent attribute
assignments / deletions sorted."""
import ast
import copy
from pathlib import Path

from . import emit
from .gen_dispatch import S, Unclassified, is_attr


class NoClass(Exception):
    """this node matches no known shape"""


# ------------------------------------------------------------------ printing
def coq_list(xs):
    return "[" + "; ".join(xs) + "]"


def pr_expr(e):
    k = e[0]
    if k in ("ELit", "EParam", "EVar", "EAttr", "EOther"):
        return f"({k} {S(e[1])})"
    if k == "EBool":
        return f"(EBool {emit.boolean(e[1])})"
    if k == "EInt":
        return f"(EInt {emit.z(e[1])})"
    if k in ("ERest", "EUserHome", "ENewStream", "EOpaque"):
        return k
    if k in ("EParent", "EIntOf", "EStr", "EDblQuote", "EQuoted"):
        return f"({k} {pr_expr(e[1])})"
    raise AssertionError(k)


def pr_cond(c):
    k = c[0]
    if k == "CIn":
        return f"(CIn {pr_expr(c[1])} {coq_list(S(x) for x in c[2])})"
    if k in ("CEq", "CStateIs"):
        return f"({k} {pr_expr(c[1])} {S(c[2])})"
    if k == "CLenLe":
        return f"(CLenLe {pr_expr(c[1])} {emit.z(c[2])})"
    if k in ("CTruthy", "CIsAscii", "CIsDigit"):
        return f"({k} {pr_expr(c[1])})"
    if k in ("CDone", "COther"):
        return f"({k} {S(c[1])})"
    if k == "CNot":
        return f"(CNot {pr_cond(c[1])})"
    if k == "CAnd":
        return f"(CAnd {pr_cond(c[1])} {pr_cond(c[2])})"
    if k == "CAuth":
        return f"(CAuth {pr_expr(c[1])} {pr_expr(c[2])})"
    if k == "CBackend":
        return f"(CBackend {S(c[1])} {pr_expr(c[2])})"
    if k == "CWorkersRunning":
        return k
    raise AssertionError(k)


def pr_block(b):
    return coq_list(pr_stmt(s) for s in b)


def pr_exprs(es):
    return coq_list(pr_expr(e) for e in es)


def pr_stmt(s):
    k = s[0]
    if k == "HLet":
        return f"HLet {S(s[1])} {pr_expr(s[2])}"
    if k == "HIf":
        return f"HIf {pr_cond(s[1])} {pr_block(s[2])} {pr_block(s[3])}"
    if k == "HReply":
        return f"HReply {pr_expr(s[1])} {pr_expr(s[2])}"
    if k == "HReturn":
        return f"HReturn {emit.boolean(s[1])}"
    if k == "HSetAttr":
        return f"HSetAttr {S(s[1])} {pr_expr(s[2])}"
    if k in ("HDelAttr", "HRaise", "HOther"):
        return f"{k} {S(s[1])}"
    if k == "HGetPaths":
        return f"HGetPaths {S(s[1])} {S(s[2])} {pr_expr(s[3])}"
    if k == "HBackend":
        kws = coq_list(f"({S(n)}, {pr_expr(v)})" for n, v in s[3])
        return f"HBackend {S(s[1])} {pr_exprs(s[2])} {kws}"
    if k == "HHelper":
        return f"HHelper {S(s[1])} {S(s[2])} {pr_exprs(s[3])}"
    if k == "HGetUser":
        return f"HGetUser {S(s[1])} {S(s[2])} {S(s[3])} {pr_expr(s[4])}"
    if k in ("HNotifyLogout", "HCloseWriter", "HCloseData", "HCancelWorkers"):
        return k
    if k in ("HSpawnWorker", "HDelegate"):
        return f"{k} {S(s[1])} {pr_exprs(s[2])}"
    if k == "HDefCallback":
        return f"HDefCallback {S(s[1])} {pr_block(s[2])}"
    if k == "HStartPassive":
        return f"HStartPassive {S(s[1])} {S(s[2])} {pr_block(s[3])}"
    if k == "HPickSocket":
        return f"HPickSocket {S(s[1])} {pr_block(s[2])}"
    if k == "HAbstract":
        return f"HAbstract {S(s[1])} {S(s[2])}"
    raise AssertionError(k)


# ------------------------------------------------------------------ helpers on the ast
def dotted(node):
    """a.b.c as a string for Name/Attribute chains, else None"""
    parts = []
    while isinstance(node, ast.Attribute):
        parts.append(node.attr)
        node = node.value
    if isinstance(node, ast.Name):
        parts.append(node.id)
        return ".".join(reversed(parts))
    return None


def bound_names(stmts):
    """names bound by the statements themselves (not inside nested function definitions), in source order"""
    out = []

    def add(t):
        if isinstance(t, ast.Name):
            if t.id not in out:
                out.append(t.id)
        elif isinstance(t, (ast.Tuple, ast.List)):
            for e in t.elts:
                add(e)
        elif isinstance(t, ast.Starred):
            add(t.value)
        elif isinstance(t, ast.Subscript):
            pass

    def walk(sts):
        for st in sts:
            if isinstance(st, (ast.FunctionDef, ast.AsyncFunctionDef, ast.ClassDef)):
                continue
            if isinstance(st, ast.Assign):
                for t in st.targets:
                    add(t)
            elif isinstance(st, (ast.AugAssign, ast.AnnAssign)):
                add(st.target)
            elif isinstance(st, (ast.For, ast.AsyncFor)):
                add(st.target)
                walk(st.body)
                walk(st.orelse)
            elif isinstance(st, ast.If):
                walk(st.body)
                walk(st.orelse)
            elif isinstance(st, ast.While):
                walk(st.body)
                walk(st.orelse)
            elif isinstance(st, ast.Try):
                walk(st.body)
                for h in st.handlers:
                    if h.name and h.name not in out:
                        out.append(h.name)
                    walk(h.body)
                walk(st.orelse)
                walk(st.finalbody)
            elif isinstance(st, (ast.With, ast.AsyncWith)):
                for it in st.items:
                    if it.optional_vars is not None:
                        add(it.optional_vars)
                walk(st.body)

    walk(stmts)
    return out


class LocalRenamer(ast.NodeTransformer):
    """names of `scope` are numbered L0, L1, ... in order of first occurrence in the printed node"""

    def __init__(self, scope):
        self.scope = scope
        self.map = {}

    def visit_Name(self, node):
        if node.id in self.scope:
            if node.id not in self.map:
                self.map[node.id] = f"L{len(self.map)}"
            return ast.copy_location(ast.Name(id=self.map[node.id], ctx=node.ctx), node)
        return node


def text_of(nodes, scope):
    """normalised source text of statements / an expression, locals numbered within the text"""
    r = LocalRenamer(scope)
    out = []
    for n in nodes if isinstance(nodes, list) else [nodes]:
        m = r.visit(copy.deepcopy(n))
        ast.fix_missing_locations(m)
        out.append(" ".join(ast.unparse(m).split()))
    return "; ".join(out)


PURE_BUILTINS = {"str", "int", "tuple", "map", "len", "repr"}
PURE_METHODS = {"format", "join", "split", "replace", "strip", "lower", "upper"}


# ------------------------------------------------------------------ one handler
class Handler:
    def __init__(self, fn, handler_names, callback_of=None):
        self.fn = fn
        self.handler_names = handler_names
        self.callback_of = callback_of  # the enclosing Handler when this is a data-connection callback
        args = [a.arg for a in fn.args.args]
        if callback_of is None:
            if args[:3] != ["self", "connection", "rest"] or fn.args.vararg or fn.args.kwarg or fn.args.kwonlyargs:
                raise Unclassified(f"{fn.name}: signature is not (self, connection, rest, ...)")
            extra = args[3:]
            defaults = fn.args.defaults
            if len(defaults) != len(extra):
                raise Unclassified(f"{fn.name}: extra parameter without default")
            self.params = []
            for n, d in zip(extra, defaults):
                if not (isinstance(d, ast.Constant) and isinstance(d.value, str)):
                    raise Unclassified(f"{fn.name}: default of {n} is not a string literal")
                self.params.append((n, d.value))
            self.cb_params = []
        else:
            self.params = list(callback_of.params)
            self.cb_params = args
        body = fn.body
        if body and isinstance(body[0], ast.Expr) and isinstance(body[0].value, ast.Constant) and isinstance(body[0].value.value, str):
            body = body[1:]
        self.body = body
        self.nested = {n.name: n for n in body if isinstance(n, (ast.FunctionDef, ast.AsyncFunctionDef))}
        self.locals = bound_names(body)
        if callback_of is not None:
            # the callback sees the enclosing handler's locals as well
            self.outer_locals = callback_of.locals
        else:
            self.outer_locals = []
        self.scope = set(self.locals) | set(self.outer_locals)
        # binding kinds per local: 'lit' / 'model' / 'opaque' / 'effect'; top-level single literal bindings are inlined
        self.kinds = {n: [] for n in self.locals}
        self.lit_value = {}
        self.model_value = {}
        self.top_level_bind = {n: 0 for n in self.locals}
        self._collect_kinds(body, top=True)

    # ---------------------------------------------------------------- binding kinds
    def _note(self, name, kind, value=None, top=False):
        self.kinds.setdefault(name, []).append(kind)
        if kind == "lit":
            self.lit_value.setdefault(name, []).append(value)
        if kind == "model":
            self.model_value.setdefault(name, []).append(value)
        if top:
            self.top_level_bind[name] = self.top_level_bind.get(name, 0) + 1

    def _kind_of_value(self, v):
        if isinstance(v, ast.Constant) and isinstance(v.value, str):
            return "lit", v.value
        try:
            self.expr(v, inline=False)
            return "model", v
        except NoClass:
            pass
        if self.pure_opaque(v, for_kind=True):
            return "opaque", None
        return "effect", None

    def _collect_kinds(self, sts, top):
        for st in sts:
            if isinstance(st, ast.Assign) and len(st.targets) == 1:
                t, v = st.targets[0], st.value
                if isinstance(t, ast.Name):
                    k, val = self._kind_of_value(v)
                    if self._is_helper_call(v):
                        k = "opaque"
                    self._note(t.id, k, val, top)
                elif isinstance(t, ast.Tuple) and all(isinstance(e, ast.Name) for e in t.elts):
                    if isinstance(v, ast.Tuple) and len(v.elts) == len(t.elts):
                        for e, ve in zip(t.elts, v.elts):
                            k, val = self._kind_of_value(ve)
                            self._note(e.id, k, val, top)
                    elif self._is_get_user(v) and len(t.elts) == 3:
                        self._note(t.elts[0].id, "enum", None, top)   # the GetUserResponse value: readable by message texts
                        self._note(t.elts[1].id, "effect", None, top)
                        self._note(t.elts[2].id, "opaque", None, top)
                    else:
                        for e in t.elts:
                            self._note(e.id, "effect", None, top)
            elif isinstance(st, ast.AugAssign):
                t = st.target
                base = t.value if isinstance(t, ast.Subscript) else t
                if isinstance(base, ast.Name):
                    self._note(base.id, "opaque" if self.pure_opaque(st.value, for_kind=True) else "effect", None, False)
            elif isinstance(st, ast.If):
                self._collect_kinds(st.body, False)
                self._collect_kinds(st.orelse, False)
            elif isinstance(st, (ast.For, ast.AsyncFor)):
                for n in bound_names([st]):
                    self._note(n, "opaque" if self._is_socket_loop(st) else "effect", None, False)
            elif isinstance(st, ast.Try):
                for part in [st.body, st.orelse, st.finalbody] + [h.body for h in st.handlers]:
                    self._collect_kinds(part, False)

    def inlinable(self, name):
        return (
            name in self.kinds
            and self.kinds[name] == ["lit"]
            and self.top_level_bind.get(name, 0) == 1
        )

    def single_binding(self, name):
        return len(self.kinds.get(name, [])) == 1 and self.top_level_bind.get(name, 0) == 1

    def inlinable_model(self, name):
        """bound once, at top level, to a modelled expression that reads neither the connection nor a local that
        may be re-bound: using the expression at the use site means the same"""
        if not (self.kinds.get(name) == ["model"] and self.single_binding(name)):
            return False
        v = self.model_value[name][0]
        for n in ast.walk(v):
            if isinstance(n, ast.Name) and n.id in ("connection", "self"):
                return False
            if isinstance(n, ast.Name) and n.id in self.scope and n.id != name and not self.single_binding(n.id):
                return False
            if isinstance(n, ast.Name) and n.id == name:
                return False
        return True

    def opaque_local(self, name):
        ks = self.kinds.get(name)
        return ks is not None and len(ks) > 0 and all(k in ("lit", "opaque") for k in ks)

    # ---------------------------------------------------------------- shapes
    def _is_get_user(self, v):
        return (
            isinstance(v, ast.Await)
            and isinstance(v.value, ast.Call)
            and dotted(v.value.func) == "self.user_manager.get_user"
            and len(v.value.args) == 1
            and not v.value.keywords
        )

    def _is_helper_call(self, v):
        if not (isinstance(v, ast.Await) and isinstance(v.value, ast.Call)):
            return False
        c = v.value
        d = dotted(c.func)
        return (
            d is not None
            and d.startswith("self.")
            and d.count(".") == 1
            and c.func.attr not in self.handler_names
            and not c.func.attr.startswith("_start_passive")
            and c.args
            and isinstance(c.args[0], ast.Name)
            and c.args[0].id == "connection"
            and not c.keywords
        )

    def _is_socket_loop(self, st):
        return isinstance(st, ast.For) and dotted(st.iter) == "connection.passive_server.sockets" and isinstance(st.target, ast.Name)

    def pure_opaque(self, node, for_kind=False):
        """a side-effect-free expression over constants, parameters and locals that hold un-modelled values"""
        for n in ast.walk(node):
            if isinstance(n, (ast.Constant, ast.List, ast.Tuple, ast.JoinedStr, ast.FormattedValue, ast.BinOp, ast.operator,
                              ast.expr_context, ast.keyword, ast.Subscript, ast.Load)):
                continue
            if isinstance(n, ast.Name):
                if n.id in PURE_BUILTINS or n.id == "rest" or n.id in [p for p, _ in self.params]:
                    continue
                if n.id in self.locals or n.id in self.outer_locals:
                    if for_kind:
                        # while kinds are being collected: a local is acceptable unless already known as modelled / effectful
                        ks = self.kinds.get(n.id, [])
                        if all(k in ("lit", "opaque", "enum") for k in ks):
                            continue
                        return False
                    if self.opaque_local(n.id) or self.kinds.get(n.id) == ["enum"]:
                        continue
                return False
            if isinstance(n, ast.Call):
                f = n.func
                if isinstance(f, ast.Name) and f.id in PURE_BUILTINS:
                    continue
                if isinstance(f, ast.Attribute) and f.attr in PURE_METHODS:
                    continue
                return False
            if isinstance(n, ast.Attribute):
                # only as the callee of a pure method (checked above)
                if n.attr in PURE_METHODS:
                    continue
                return False
            return False
        return True

    # ---------------------------------------------------------------- expressions
    def expr(self, n, inline=True):
        if isinstance(n, ast.Constant):
            if isinstance(n.value, bool):
                return ("EBool", n.value)
            if isinstance(n.value, str):
                return ("ELit", n.value)
            if isinstance(n.value, int):
                return ("EInt", n.value)
            raise NoClass
        if isinstance(n, ast.Name):
            if n.id == "rest" and self.callback_of is None:
                return ("ERest",)
            if n.id in [p for p, _ in self.params]:
                return ("EParam", n.id)
            if n.id in self.scope:
                if inline and self.inlinable(n.id):
                    return ("ELit", self.lit_value[n.id][0])
                if inline and self.inlinable_model(n.id):
                    return self.expr(self.model_value[n.id][0], inline)
                return ("EVar", n.id)
            raise NoClass
        if isinstance(n, ast.Attribute):
            d = dotted(n)
            if d == "connection.user.home_path":
                return ("EUserHome",)
            if is_attr(n, "connection"):
                return ("EAttr", n.attr)
            if n.attr == "parent":
                return ("EParent", self.expr(n.value, inline))
            raise NoClass
        if isinstance(n, ast.Call) and not n.keywords:
            f = n.func
            if isinstance(f, ast.Name) and f.id == "int" and len(n.args) == 1:
                return ("EIntOf", self.expr(n.args[0], inline))
            if isinstance(f, ast.Name) and f.id == "str" and len(n.args) == 1:
                return ("EStr", self.expr(n.args[0], inline))
            if (
                isinstance(f, ast.Attribute)
                and f.attr == "replace"
                and len(n.args) == 2
                and all(isinstance(a, ast.Constant) for a in n.args)
                and n.args[0].value == '"'
                and n.args[1].value == '""'
            ):
                return ("EDblQuote", self.expr(f.value, inline))
            raise NoClass
        if isinstance(n, ast.Call) and isinstance(n.func, ast.Name) and n.func.id == "ThrottleStreamIO" and self.callback_of is not None:
            if [dotted(a) for a in n.args] == self.cb_params[:2] == ["reader", "writer"]:
                return ("ENewStream",)
            raise NoClass
        if isinstance(n, ast.JoinedStr):
            v = n.values
            if (
                len(v) == 3
                and isinstance(v[0], ast.Constant)
                and v[0].value == '"'
                and isinstance(v[2], ast.Constant)
                and v[2].value == '"'
                and isinstance(v[1], ast.FormattedValue)
                and v[1].conversion == -1
                and v[1].format_spec is None
            ):
                return ("EQuoted", self.expr(v[1].value, inline))
            raise NoClass
        raise NoClass

    def let_expr(self, v):
        try:
            return self.expr(v)
        except NoClass:
            if self.pure_opaque(v):
                return ("EOpaque",)
            raise

    def info_expr(self, v):
        """second argument of connection.response"""
        if isinstance(v, ast.Name) and v.id in self.scope:
            if self.opaque_local(v.id):
                return ("EOpaque",)
            return self.expr(v)
        if self.pure_opaque(v):
            return ("EOpaque",)
        return self.expr(v)

    # ---------------------------------------------------------------- conditions
    def cond(self, t):
        try:
            return self._cond(t)
        except NoClass:
            return ("COther", text_of(t, self.scope))

    def _cond(self, t):
        if isinstance(t, ast.UnaryOp) and isinstance(t.op, ast.Not):
            return ("CNot", self._cond(t.operand))
        if isinstance(t, ast.BoolOp) and isinstance(t.op, ast.And) and len(t.values) >= 2:
            # a and b and c  =  (a and b) and c
            c = self._cond(t.values[0])
            for v in t.values[1:]:
                c = ("CAnd", c, self._cond(v))
            return c
        if isinstance(t, ast.Compare) and len(t.ops) == 1:
            op, left, right = t.ops[0], t.left, t.comparators[0]
            if isinstance(op, ast.In) and isinstance(right, (ast.Tuple, ast.List)) and all(
                isinstance(e, ast.Constant) and isinstance(e.value, str) for e in right.elts
            ):
                return ("CIn", self.expr(left), [e.value for e in right.elts])
            if (
                isinstance(op, ast.LtE)
                and isinstance(right, ast.Constant)
                and isinstance(right.value, int)
                and not isinstance(right.value, bool)
                and isinstance(left, ast.Call)
                and isinstance(left.func, ast.Name)
                and left.func.id == "len"
                and len(left.args) == 1
                and not left.keywords
            ):
                return ("CLenLe", self.expr(left.args[0]), right.value)
            if isinstance(op, ast.Eq) and isinstance(right, ast.Constant) and isinstance(right.value, str):
                return ("CEq", self.expr(left), right.value)
            if isinstance(op, ast.Eq):
                d = dotted(right)
                if d and d.startswith("AbstractUserManager.GetUserResponse."):
                    return ("CStateIs", self.expr(left), d.rsplit(".", 1)[1])
            raise NoClass
        if isinstance(t, ast.Call) and not t.keywords:
            f = t.func
            d = dotted(f)
            if d and d.startswith("connection.future.") and d.endswith(".done") and d.count(".") == 3 and not t.args:
                return ("CDone", d.split(".")[2])
            if isinstance(f, ast.Attribute) and f.attr in ("isascii", "isdigit") and not t.args:
                return ("CIsAscii" if f.attr == "isascii" else "CIsDigit", self.expr(f.value))
            if (
                isinstance(f, ast.Name)
                and f.id == "any"
                and len(t.args) == 1
                and " ".join(ast.unparse(t.args[0]).split()) == "(not worker.done() for worker in connection.extra_workers)"
            ):
                return ("CWorkersRunning",)
            raise NoClass
        if isinstance(t, ast.Await) and isinstance(t.value, ast.Call) and not t.value.keywords:
            c = t.value
            d = dotted(c.func)
            if d == "self.user_manager.authenticate" and len(c.args) == 2:
                return ("CAuth", self.expr(c.args[0]), self.expr(c.args[1]))
            if d and d.startswith("connection.path_io.") and d.count(".") == 2 and len(c.args) == 1:
                return ("CBackend", c.func.attr, self.expr(c.args[0]))
            raise NoClass
        if isinstance(t, ast.Name):
            return ("CTruthy", self.expr(t))
        raise NoClass

    # ---------------------------------------------------------------- statements
    def other(self, st):
        return [("HOther", text_of(st, self.scope))]

    def is_throttle(self, st):
        """a statement that only builds / installs throttles (self.throttle_per_user, command_connection.throttles)"""
        if not isinstance(st, (ast.If, ast.Assign, ast.Expr)):
            return False
        touched = False
        for n in ast.walk(st):
            if isinstance(n, (ast.Await, ast.Return, ast.Raise, ast.Delete, ast.Yield, ast.YieldFrom, ast.NamedExpr,
                              ast.For, ast.While, ast.Try, ast.With, ast.AsyncWith, ast.AsyncFor, ast.AugAssign)):
                return False
            if isinstance(n, ast.Call):
                d = dotted(n.func)
                if d not in ("StreamThrottle.from_limits", "connection.command_connection.throttles.update"):
                    return False
                touched = True
            if isinstance(n, ast.Assign):
                for t in n.targets:
                    if isinstance(t, ast.Name):
                        continue
                    if isinstance(t, ast.Subscript) and dotted(t.value) == "self.throttle_per_user":
                        touched = True
                        continue
                    return False
            if isinstance(n, ast.Attribute) and isinstance(n.ctx, ast.Load):
                d = dotted(n)
                if d is None:
                    return False
                ok = (
                    d in ("self.throttle_per_user", "connection.user", "connection.command_connection",
                          "connection.command_connection.throttles", "connection.command_connection.throttles.update",
                          "StreamThrottle.from_limits")
                    or (d.startswith("connection.user.") and "speed_limit" in d)
                )
                if not ok:
                    return False
        return touched

    def block(self, sts):
        out = []
        i = 0
        while i < len(sts):
            st = sts[i]
            used, nodes = self.group(sts, i)
            if used:
                out.extend(nodes)
                i += used
                continue
            out.extend(self.stmt(st))
            i += 1
        return out

    def group(self, sts, i):
        """multi-statement idioms"""
        st = sts[i]
        # coro = W(self, connection, rest); task = asyncio.create_task(coro); connection.extra_workers.add(task)
        if i + 2 < len(sts) + 0 and isinstance(st, ast.Assign) and len(st.targets) == 1 and isinstance(st.targets[0], ast.Name):
            c = st.value
            if (
                isinstance(c, ast.Call)
                and isinstance(c.func, ast.Name)
                and c.func.id in self.nested
                and [dotted(a) for a in c.args] == ["self", "connection", "rest"]
                and not c.keywords
                and i + 2 < len(sts)
            ):
                coro = st.targets[0].id
                s2, s3 = sts[i + 1], sts[i + 2]
                ok2 = (
                    isinstance(s2, ast.Assign)
                    and len(s2.targets) == 1
                    and isinstance(s2.targets[0], ast.Name)
                    and isinstance(s2.value, ast.Call)
                    and dotted(s2.value.func) == "asyncio.create_task"
                    and [dotted(a) for a in s2.value.args] == [coro]
                    and not s2.value.keywords
                )
                ok3 = (
                    ok2
                    and isinstance(s3, ast.Expr)
                    and isinstance(s3.value, ast.Call)
                    and dotted(s3.value.func) == "connection.extra_workers.add"
                    and [dotted(a) for a in s3.value.args] == [s2.targets[0].id]
                )
                wfn = self.nested[c.func.id]
                is_worker = any(isinstance(d, ast.Name) and d.id == "worker" for d in wfn.decorator_list)
                if ok3 and is_worker:
                    used_names = {n.id for n in ast.walk(wfn) if isinstance(n, ast.Name)}
                    own = set(bound_names(wfn.body)) | {a.arg for a in wfn.args.args}
                    caps = [("EVar", n) for n in self.locals if n in used_names and n not in own]
                    caps += [("EParam", p) for p, _ in sorted(self.params) if p in used_names and p not in own]
                    return 3, [("HSpawnWorker", c.func.id, caps)]
        # coro = self._start_passive_server(connection, CB); try: connection.A = await coro  except errors.NoAvailablePort: ...
        if i + 1 < len(sts) and isinstance(st, ast.Assign) and len(st.targets) == 1 and isinstance(st.targets[0], ast.Name):
            c = st.value
            if (
                isinstance(c, ast.Call)
                and dotted(c.func) == "self._start_passive_server"
                and len(c.args) == 2
                and dotted(c.args[0]) == "connection"
                and isinstance(c.args[1], ast.Name)
                and c.args[1].id in self.nested
                and not c.keywords
            ):
                tr = sts[i + 1]
                if (
                    isinstance(tr, ast.Try)
                    and len(tr.body) == 1
                    and not tr.orelse
                    and not tr.finalbody
                    and len(tr.handlers) == 1
                    and dotted(tr.handlers[0].type) == "errors.NoAvailablePort"
                    and tr.handlers[0].name is None
                ):
                    a = tr.body[0]
                    if (
                        isinstance(a, ast.Assign)
                        and len(a.targets) == 1
                        and is_attr(a.targets[0], "connection")
                        and isinstance(a.value, ast.Await)
                        and dotted(a.value.value) == st.targets[0].id
                    ):
                        return 2, [("HStartPassive", a.targets[0].attr, c.args[1].id, self.block(tr.handlers[0].body))]
        return 0, []

    def stmt(self, st):
        try:
            return self._stmt(st)
        except NoClass:
            return self.other(st)

    def _stmt(self, st):
        if isinstance(st, ast.Expr) and isinstance(st.value, ast.Constant) and isinstance(st.value.value, str):
            return []
        if isinstance(st, (ast.FunctionDef, ast.AsyncFunctionDef)):
            if any(isinstance(d, ast.Name) and d.id == "worker" for d in st.decorator_list):
                return []  # the worker's own text is C01 / C12's (Gen.Dispatch.workers, Gen.Xfer); HSpawnWorker names it
            args = [a.arg for a in st.args.args]
            if isinstance(st, ast.AsyncFunctionDef) and args == ["reader", "writer"] and not st.decorator_list and self.callback_of is None:
                cb = Handler(st, self.handler_names, callback_of=self)
                return [("HDefCallback", st.name, cb.block(cb.body))]
            raise NoClass
        if self.is_throttle(st):
            return [("HAbstract", "throttle", text_of(st, self.scope))]
        if isinstance(st, ast.Return):
            v = st.value
            if isinstance(v, ast.Constant) and isinstance(v.value, bool):
                return [("HReturn", v.value)]
            if isinstance(v, ast.Await) and isinstance(v.value, ast.Call):
                c = v.value
                d = dotted(c.func)
                if (
                    d
                    and d.startswith("self.")
                    and d.count(".") == 1
                    and c.func.attr in self.handler_names
                    and c.args
                    and dotted(c.args[0]) == "connection"
                    and not c.keywords
                ):
                    return [("HDelegate", c.func.attr, [self.expr(a) for a in c.args[1:]])]
            raise NoClass
        if isinstance(st, ast.Raise):
            e = st.exc
            if isinstance(e, ast.Call) and isinstance(e.func, ast.Name):
                return [("HRaise", e.func.id)]
            if isinstance(e, ast.Name):
                return [("HRaise", e.id)]
            raise NoClass
        if isinstance(st, ast.Delete):
            out = []
            for t in st.targets:
                if not is_attr(t, "connection"):
                    raise NoClass
                out.append(("HDelAttr", t.attr))
            return out
        if isinstance(st, ast.If):
            return [("HIf", self.cond(st.test), self.block(st.body), self.block(st.orelse))]
        if isinstance(st, ast.For):
            if self._is_socket_loop(st):
                return [("HPickSocket", text_of(st.body, self.scope | {st.target.id}), self.block(st.orelse))]
            if (
                dotted(st.iter) == "connection.extra_workers"
                and isinstance(st.target, ast.Name)
                and not st.orelse
                and len(st.body) == 1
                and " ".join(ast.unparse(st.body[0]).split()) == f"{st.target.id}.cancel()"
            ):
                return [("HCancelWorkers",)]
            raise NoClass
        if isinstance(st, ast.Expr):
            v = st.value
            if isinstance(v, ast.Call):
                d = dotted(v.func)
                if d == "connection.response" and len(v.args) in (2, 3) and not v.keywords:
                    if len(v.args) == 3 and not isinstance(v.args[2], ast.Constant):
                        raise NoClass
                    return [("HReply", self.expr(v.args[0]), self.info_expr(v.args[1]))]
                if d == "connection.data_connection.close" and not v.args and not v.keywords:
                    return [("HCloseData",)]
                if d == "writer.close" and self.callback_of is not None and not v.args and not v.keywords:
                    return [("HCloseWriter",)]
                raise NoClass
            if isinstance(v, ast.Await) and isinstance(v.value, ast.Call):
                c = v.value
                d = dotted(c.func)
                if d and d.startswith("connection.path_io.") and d.count(".") == 2:
                    kws = []
                    for k in c.keywords:
                        if k.arg is None:
                            raise NoClass
                        kws.append((k.arg, self.expr(k.value)))
                    return [("HBackend", c.func.attr, [self.expr(a) for a in c.args], kws)]
                if d == "self.user_manager.notify_logout" and [dotted(a) for a in c.args] == ["connection.user"] and not c.keywords:
                    return [("HNotifyLogout",)]
            raise NoClass
        if isinstance(st, ast.AugAssign):
            t = st.target
            base = t.value if isinstance(t, ast.Subscript) else t
            if isinstance(base, ast.Name) and base.id in self.locals and self.pure_opaque(st.value) and self.opaque_local(base.id):
                return [("HLet", base.id, ("EOpaque",))]
            raise NoClass
        if isinstance(st, ast.Assign) and len(st.targets) == 1:
            t, v = st.targets[0], st.value
            if is_attr(t, "connection"):
                return [("HSetAttr", t.attr, self.expr(v))]
            if isinstance(t, ast.Tuple) and all(isinstance(e, ast.Name) for e in t.elts):
                names = [e.id for e in t.elts]
                if (
                    isinstance(v, ast.Call)
                    and dotted(v.func) == "self.get_paths"
                    and len(names) == 2
                    and len(v.args) == 2
                    and dotted(v.args[0]) == "connection"
                    and not v.keywords
                ):
                    return [("HGetPaths", names[0], names[1], self.expr(v.args[1]))]
                if self._is_get_user(v) and len(names) == 3:
                    return [("HGetUser", names[0], names[1], names[2], self.expr(v.value.args[0]))]
                if isinstance(v, ast.Tuple) and len(v.elts) == len(names):
                    # a, b = e1, e2 with e1, e2 not reading a or b: two lets
                    reads = {n.id for e in v.elts for n in ast.walk(e) if isinstance(n, ast.Name)}
                    if reads & set(names):
                        raise NoClass
                    return [("HLet", n, self.let_expr(e)) for n, e in zip(names, v.elts)]
                raise NoClass
            if isinstance(t, ast.Name):
                if self._is_helper_call(v):
                    c = v.value
                    return [("HHelper", t.id, c.func.attr, [self.expr(a) for a in c.args[1:]])]
                return [("HLet", t.id, self.let_expr(v))]
            raise NoClass
        raise NoClass


# ------------------------------------------------------------------ post-passes on the translated program
def map_blocks(b, f):
    """apply f to every block, innermost first"""
    out = []
    for s in b:
        k = s[0]
        if k == "HIf":
            s = ("HIf", s[1], map_blocks(s[2], f), map_blocks(s[3], f))
        elif k == "HDefCallback":
            s = ("HDefCallback", s[1], map_blocks(s[2], f))
        elif k == "HStartPassive":
            s = ("HStartPassive", s[1], s[2], map_blocks(s[3], f))
        elif k == "HPickSocket":
            s = ("HPickSocket", s[1], map_blocks(s[2], f))
        out.append(s)
    return f(out)


def expr_reads(e, acc):
    if e[0] == "EVar":
        acc.add(e[1])
    for x in e[1:]:
        if isinstance(x, tuple):
            expr_reads(x, acc)


def cond_reads(c, acc):
    for x in c[1:]:
        if isinstance(x, tuple):
            if x[0].startswith("C"):
                cond_reads(x, acc)
            else:
                expr_reads(x, acc)


def stmt_reads(s, acc):
    k = s[0]
    if k == "HIf":
        cond_reads(s[1], acc)
    for x in s[1:]:
        if isinstance(x, tuple) and x and isinstance(x[0], str) and x[0].startswith("E"):
            expr_reads(x, acc)
        elif isinstance(x, list):
            for y in x:
                if isinstance(y, tuple) and y and isinstance(y[0], str):
                    if y[0].startswith("H"):
                        stmt_reads(y, acc)
                    elif y[0].startswith("E"):
                        expr_reads(y, acc)
                    elif len(y) == 2 and isinstance(y[1], tuple):
                        expr_reads(y[1], acc)  # keyword (name, expr)


def reads_connection(e):
    if e[0] in ("EAttr", "EUserHome"):
        return True
    return any(isinstance(x, tuple) and reads_connection(x) for x in e[1:])


def sort_attr_runs(b):
    out = []
    run = []

    def flush():
        if len({s[1] for s in run}) == len(run):
            out.extend(sorted(run, key=lambda s: s[1]))
        else:
            out.extend(run)
        run.clear()

    for s in b:
        if s[0] == "HDelAttr" or (s[0] == "HSetAttr" and not reads_connection(s[2])):
            run.append(s)
        else:
            flush()
            out.append(s)
    flush()
    return out


def rename_expr(e, m):
    if e[0] == "EVar":
        return ("EVar", m.get(e[1], e[1]))
    return tuple(rename_expr(x, m) if isinstance(x, tuple) else x for x in e)


def rename_cond(c, m):
    out = [c[0]]
    for x in c[1:]:
        if isinstance(x, tuple):
            out.append(rename_cond(x, m) if x[0].startswith("C") else rename_expr(x, m))
        else:
            out.append(x)
    return tuple(out)


def binders(s):
    k = s[0]
    if k == "HLet":
        return [s[1]]
    if k == "HGetPaths":
        return [s[1], s[2]]
    if k == "HHelper":
        return [s[1]]
    if k == "HGetUser":
        return [s[1], s[2], s[3]]
    return []


def number_locals(b):
    order = []

    def walk(bl):
        for s in bl:
            for n in binders(s):
                if n not in order:
                    order.append(n)
            for x in s[1:]:
                if isinstance(x, list) and x and isinstance(x[0], tuple) and isinstance(x[0][0], str) and x[0][0].startswith("H"):
                    walk(x)

    walk(b)
    m = {n: f"x{i}" for i, n in enumerate(order)}

    def ren(bl):
        out = []
        for s in bl:
            k = s[0]
            if k == "HLet":
                s = ("HLet", m[s[1]], rename_expr(s[2], m))
            elif k == "HIf":
                s = ("HIf", rename_cond(s[1], m), ren(s[2]), ren(s[3]))
            elif k == "HGetPaths":
                s = ("HGetPaths", m[s[1]], m[s[2]], rename_expr(s[3], m))
            elif k == "HHelper":
                s = ("HHelper", m[s[1]], s[2], [rename_expr(e, m) for e in s[3]])
            elif k == "HGetUser":
                s = ("HGetUser", m[s[1]], m[s[2]], m[s[3]], rename_expr(s[4], m))
            elif k in ("HReply",):
                s = (k, rename_expr(s[1], m), rename_expr(s[2], m))
            elif k == "HSetAttr":
                s = (k, s[1], rename_expr(s[2], m))
            elif k == "HBackend":
                s = (k, s[1], [rename_expr(e, m) for e in s[2]], [(n, rename_expr(e, m)) for n, e in s[3]])
            elif k in ("HSpawnWorker", "HDelegate"):
                s = (k, s[1], [rename_expr(e, m) for e in s[2]])
            elif k == "HDefCallback":
                s = (k, s[1], ren(s[2]))
            elif k == "HStartPassive":
                s = (k, s[1], s[2], ren(s[3]))
            elif k == "HPickSocket":
                s = (k, s[1], ren(s[2]))
            out.append(s)
        return out

    return ren(b)


def translate(fn, handler_names):
    h = Handler(fn, handler_names)
    prog = h.block(h.body)
    # drop lets of locals that nothing reads (iterate: a dropped let may have been the only reader of another)
    while True:
        reads = set()
        for s in prog:
            stmt_reads(s, reads)
        before = repr(prog)
        prog = map_blocks(prog, lambda b: [s for s in b if not (s[0] == "HLet" and s[1] not in reads)])
        if repr(prog) == before:
            break
    prog = map_blocks(prog, sort_attr_runs)
    prog = number_locals(prog)
    return h.params, prog


def handler_methods(server_cls):
    init = None
    for n in server_cls.body:
        if isinstance(n, ast.FunctionDef) and n.name == "__init__":
            init = n
    if init is None:
        raise Unclassified("Server.__init__ not found")
    names = None
    for n in ast.walk(init):
        if isinstance(n, ast.Assign) and len(n.targets) == 1 and is_attr(n.targets[0], "self", "commands_mapping"):
            if not isinstance(n.value, ast.Dict):
                raise Unclassified("commands_mapping is not a dict literal")
            names = []
            for v in n.value.values:
                if not is_attr(v, "self"):
                    raise Unclassified(f"commands_mapping value {ast.unparse(v)}")
                if v.attr not in names:
                    names.append(v.attr)
    if names is None:
        raise Unclassified("commands_mapping not found")
    return sorted(names)


def generate(src_dir):
    path = Path(src_dir) / "server.py"
    tree = ast.parse(path.read_text())
    server = None
    for n in tree.body:
        if isinstance(n, ast.ClassDef) and n.name == "Server":
            server = n
    if server is None:
        raise Unclassified("class Server not found")
    methods = {n.name: n for n in server.body if isinstance(n, (ast.FunctionDef, ast.AsyncFunctionDef))}
    names = handler_methods(server)
    entries = []
    for name in names:
        if name not in methods or not isinstance(methods[name], ast.AsyncFunctionDef):
            raise Unclassified(f"handler {name} is not an async method of Server")
        params, prog = translate(methods[name], set(names))
        ps = coq_list(f"({S(p)}, {S(d)})" for p, d in params)
        body = ";\n       ".join(pr_stmt(s) for s in prog)
        entries.append(f"({S(name)},\n   {{| hp_params := {ps};\n      hp_body := [\n       {body}] |}})")
    out = emit.HEADER.format(src=str(src_dir))
    out += "From Coq Require Import String.\nFrom Verif Require Import Lib.HandlerFacts.\nLocal Open Scope string_scope.\n\n"
    out += "Definition translator_ok : bool := true.\n\n"
    # how a command line becomes text (C03: credentials are compared AFTER this step): the decode expression of parse_command
    pc = methods.get("parse_command")
    decodes = []
    if pc is not None:
        for n in ast.walk(pc):
            if isinstance(n, ast.Assign) and any(isinstance(c, ast.Call) and isinstance(c.func, ast.Attribute) and c.func.attr == "decode" for c in ast.walk(n.value)):
                decodes.append(" ".join(ast.unparse(n.value).split()))
    out += f"Definition parse_command_decode : list string := {coq_list(S(d) for d in decodes)}.\n\n"
    out += "Definition programs : list (string * hprog) := [\n  " + ";\n  ".join(entries) + "\n].\n"
    return out
