"""gen_pathio: facts about the three shipped storage backends (src/aioftp/pathio.py) -> coq/Gen/PathIOTable.v

For each class in {PathIO, AsyncPathIO, MemoryPathIO} and each backend operation
(exists, is_dir, is_file, mkdir, rmdir, unlink, list, stat, _open, seek, write, read, close, rename):
  * the decorator stack, outermost first (for `list`: the stack of the nested Lister.__anext__),
  * the normalised signature (ast.unparse of the arguments),
  * for the two file-system classes the normalised forwarded call, e.g. "path.mkdir(parents=parents, exist_ok=exist_ok)",
    "path.glob('*')", "file.seek(*args, **kwargs)"  (empty for MemoryPathIO, whose bodies are modelled in MemFS.v).
Also the shape of the wrappers `_blocking_io` and `_with_timeout` (do they forward everything and return the result).
Fail closed: any method body / decorator / wrapper that does not have one of the known shapes raises."""
import ast
from pathlib import Path

from . import emit

CLASSES = ["PathIO", "AsyncPathIO", "MemoryPathIO"]
OPS = ["exists", "is_dir", "is_file", "mkdir", "rmdir", "unlink", "list", "stat", "_open", "seek", "write", "read", "close", "rename"]
KNOWN_DECORATORS = {"universal_exception", "with_timeout", "_blocking_io", "defend_file_methods"}


class Unclassified(Exception):
    pass


def deco_name(d):
    if isinstance(d, ast.Name):
        return d.id
    if isinstance(d, ast.Attribute):
        return ast.unparse(d)
    raise Unclassified(f"decorator shape at line {d.lineno}: {ast.unparse(d)}")


def decos(fn):
    names = [deco_name(d) for d in fn.decorator_list]
    for n in names:
        if n not in KNOWN_DECORATORS:
            raise Unclassified(f"unknown decorator {n!r} on {fn.name} (line {fn.lineno})")
    return names


def strip_doc(body):
    if body and isinstance(body[0], ast.Expr) and isinstance(body[0].value, ast.Constant) and isinstance(body[0].value.value, str):
        return body[1:]
    return body


def single_return_call(fn):
    body = strip_doc(fn.body)
    if len(body) == 1 and isinstance(body[0], ast.Return) and isinstance(body[0].value, ast.Call):
        return ast.unparse(body[0].value)
    raise Unclassified(f"{fn.name} (line {fn.lineno}): body is not a single `return <call>`")


def is_next_pattern(stmts):
    """try: return next(self.iter) / except StopIteration: raise StopAsyncIteration"""
    if len(stmts) != 1 or not isinstance(stmts[0], ast.Try):
        return False
    t = stmts[0]
    if t.orelse or t.finalbody or len(t.handlers) != 1 or len(t.body) != 1:
        return False
    if ast.unparse(t.body[0]) != "return next(self.iter)":
        return False
    h = t.handlers[0]
    return (h.type is not None and ast.unparse(h.type) == "StopIteration" and len(h.body) == 1
            and ast.unparse(h.body[0]) == "raise StopAsyncIteration")


def lister_facts(cls_name, fn):
    """`def list(self, path)` defining a nested Lister class -> (decorators of __anext__, glob call)"""
    body = strip_doc(fn.body)
    if len(body) != 2 or not isinstance(body[0], ast.ClassDef) or not isinstance(body[1], ast.Return):
        raise Unclassified(f"{cls_name}.list (line {fn.lineno}): expected `class Lister` + `return Lister(...)`")
    lister = body[0]
    ret = ast.unparse(body[1].value)
    if ret not in ("Lister(timeout=self.timeout)", "Lister(timeout=self.timeout, executor=self.executor)"):
        raise Unclassified(f"{cls_name}.list returns {ret}")
    methods = {n.name: n for n in lister.body if isinstance(n, (ast.FunctionDef, ast.AsyncFunctionDef))}
    for n in lister.body:
        if isinstance(n, (ast.FunctionDef, ast.AsyncFunctionDef)):
            continue
        if isinstance(n, ast.Assign) and ast.unparse(n) == "iter = None":
            continue
        raise Unclassified(f"{cls_name}.Lister: unexpected statement at line {n.lineno}")
    if "__anext__" not in methods:
        raise Unclassified(f"{cls_name}.Lister has no __anext__")
    an = methods["__anext__"]
    d = decos(an)
    if cls_name == "MemoryPathIO":
        return d, ""
    b = strip_doc(an.body)
    if not b or not isinstance(b[0], ast.If) or ast.unparse(b[0].test) != "self.iter is None" or b[0].orelse \
            or len(b[0].body) != 1 or not isinstance(b[0].body[0], ast.Assign) \
            or ast.unparse(b[0].body[0].targets[0]) != "self.iter" or not isinstance(b[0].body[0].value, ast.Call):
        raise Unclassified(f"{cls_name}.Lister.__anext__ (line {an.lineno}): no `if self.iter is None: self.iter = <call>`")
    call = ast.unparse(b[0].body[0].value)
    rest = b[1:]
    if is_next_pattern(rest):
        pass
    elif len(rest) == 1 and ast.unparse(rest[0]) == "return self.worker()" and "worker" in methods \
            and is_next_pattern(strip_doc(methods["worker"].body)) and not methods["worker"].decorator_list:
        pass
    else:
        raise Unclassified(f"{cls_name}.Lister.__anext__ (line {an.lineno}): iteration step has an unknown shape")
    extra = set(methods) - {"__anext__", "worker", "__init__"}
    if extra:
        raise Unclassified(f"{cls_name}.Lister: unexpected methods {sorted(extra)}")
    return d, call


def wrapper_shape(tree, name, expected_body):
    fn = next((n for n in tree.body if isinstance(n, ast.FunctionDef) and n.name == name), None)
    if fn is None:
        raise Unclassified(f"{name} not found")
    inner = [n for n in ast.walk(fn) if isinstance(n, (ast.FunctionDef, ast.AsyncFunctionDef)) and n.name == "wrapper"]
    if len(inner) != 1:
        raise Unclassified(f"{name}: expected exactly one inner wrapper")
    got = [ast.unparse(s) for s in strip_doc(inner[0].body)]
    return got == expected_body and ast.unparse(inner[0].args) in ("self, *args, **kwargs", "cls, *args, **kwargs")


def safe(t):
    """text for a Coq comment"""
    return t.replace("(*", "( *").replace("*)", "* )")


def generate(src_dir):
    src_dir = Path(src_dir)
    tree = ast.parse((src_dir / "pathio.py").read_text())
    classes = {n.name: n for n in tree.body if isinstance(n, ast.ClassDef)}
    rows = []
    for ci, cname in enumerate(CLASSES):
        if cname not in classes:
            raise Unclassified(f"class {cname} not found in pathio.py")
        methods = {n.name: n for n in classes[cname].body if isinstance(n, (ast.FunctionDef, ast.AsyncFunctionDef))}
        for op in OPS:
            if op not in methods:
                raise Unclassified(f"{cname}.{op} not defined")
            fn = methods[op]
            sig = ast.unparse(fn.args)
            if op == "list":
                if fn.decorator_list:
                    raise Unclassified(f"{cname}.list carries decorators")
                d, call = lister_facts(cname, fn)
            else:
                d = decos(fn)
                call = "" if cname == "MemoryPathIO" else single_return_call(fn)
                if cname == "PathIO" and not isinstance(fn, ast.AsyncFunctionDef):
                    raise Unclassified(f"PathIO.{op} is not a coroutine function")
                if cname == "AsyncPathIO" and "_blocking_io" in d and isinstance(fn, ast.AsyncFunctionDef):
                    raise Unclassified(f"AsyncPathIO.{op}: _blocking_io on a coroutine function")
            rows.append((ci, cname, op, d, sig, call))
    blocking = wrapper_shape(
        tree, "_blocking_io",
        ["return await asyncio.get_running_loop().run_in_executor(self.executor, functools.partial(f, self, *args, **kwargs))"],
    )
    ctree = ast.parse((src_dir / "common.py").read_text())
    wt = wrapper_shape(
        ctree, "_with_timeout",
        ["coro = f(cls, *args, **kwargs)", "timeout = getattr(cls, name)", "return asyncio.wait_for(coro, timeout)"],
    )
    out = [emit.HEADER.format(src=str(src_dir / "pathio.py"))]
    out.append("Definition cPathIO : Z := 0.\nDefinition cAsyncPathIO : Z := 1.\nDefinition cMemoryPathIO : Z := 2.\n")
    out.append("(* (class, method, decorator stack outermost first, signature, forwarded call) *)")
    out.append("Definition table : list (Z * list Z * list (list Z) * list Z * list Z) := [")
    lines = []
    for ci, cname, op, d, sig, call in rows:
        lines.append(
            f"  (* {cname}.{op}: {' > '.join(d)} | {safe(sig)} | {safe(call)} *)\n"
            f"  ({ci}, {emit.text(op)}, {emit.lst([emit.text(x) for x in d])}, {emit.text(sig)}, {emit.text(call)})"
        )
    out.append(";\n".join(lines))
    out.append("].\n")
    out.append(f"Definition ops : list (list Z) := {emit.lst([emit.text(o) for o in OPS])}.")
    out.append(f"Definition n_universal_exception : list Z := {emit.text('universal_exception')}.")
    out.append(f"Definition n_with_timeout : list Z := {emit.text('with_timeout')}.")
    out.append(f"Definition n_blocking_io : list Z := {emit.text('_blocking_io')}.")
    out.append(f"Definition n_defend_file_methods : list Z := {emit.text('defend_file_methods')}.")
    out.append("(* _blocking_io.wrapper is `return await loop.run_in_executor(self.executor, partial(f, self, *args, **kwargs))` *)")
    out.append(f"Definition blocking_io_forwards : bool := {emit.boolean(blocking)}.")
    out.append("(* _with_timeout.wrapper is `coro = f(cls, *args, **kwargs); return asyncio.wait_for(coro, getattr(cls, name))` *)")
    out.append(f"Definition with_timeout_is_wait_for : bool := {emit.boolean(wt)}.")
    out.append("Definition translator_ok_pathio : bool := true.")
    return "\n".join(out) + "\n"
