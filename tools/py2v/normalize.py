"""py2v pre-pass: semantics-preserving normalisation of the aioftp sources BEFORE the generators read them.

Why: the generators classify shapes of the AST and fail closed on shapes they do not know.  Maintainers rewrite code
without changing what it does (an if/else that assigns one variable instead of a conditional expression, a lambda
turned into a one-line def, a literal table moved to a private module constant, a block moved into a private helper
that is called at exactly the same point).  Each rule below rewrites such a variant INTO the shape the pinned source
uses, so that the regenerated facts -- and the theorems re-checked on them -- do not depend on the spelling.  The
rules are part of the trusted translator; each is an equivalence of Python programs, with its side conditions checked
syntactically and the rule skipped (never approximated) when a condition fails:

 R1  `if T: X = A` / `else: X = B`            ==>  `X = A if T else B`
       X a plain name or `<name>.<attr>`; both branches exactly one assignment to the textually same target.
       Same evaluation order: T, then exactly one of A / B, then the store.
 R2  `def f(): return E` used once, in the NEXT statement  ==>  that use replaced by `lambda: E`
       no parameters, no decorators, not async, not a generator, the name occurs nowhere else in the enclosing function.
       Both are closures over the same cells, created before the same use; only `__name__` differs.
 R3  module-level `_NAME = <literal of constants>` read only as `_NAME[...]` / `x in _NAME` inside functions of the module
       ==> the literal copied to each use.  The literal is immutable in effect (never stored to, never passed on), so
       building it per use or once is unobservable.
 R4  private helper method `_h(self, p1..pn)` of a class, every use of which is a call `self._h(p1..pn)` whose arguments
       are the plain names p1..pn (same spelling as the parameters), the call being a whole statement of one of the forms
         (a) `self._h(..)`            / `await self._h(..)`            helper has no `return <value>`
         (b) `return self._h(..)`     / `return await self._h(..)`     any helper
         (c) `t = self._h(..)`        / `t = await self._h(..)`        every `return E` of the helper is in tail position
                                                                       (each becomes `t = E`; `if C: ..return` + rest = if/else)
         (d) `for x in self._h(..):`                                   the helper's only return is its last statement
       ==> the helper's body in place of the call statement, the helper removed.  Side conditions: no decorators, no
       defaults / *args / **kwargs, the helper never assigns its parameters, is not recursive, is no generator, declares
       no global/nonlocal, and the locals it assigns are not names of the calling function.  Passing plain names has no
       effect of its own, so running the body in the caller's frame is the same computation; (b) a `return` in the
       body returns from the caller exactly as `return self._h()` would; falling off the end returns None in both.

 R5  `"..{}..{!r}..".format(a, b)`  ==>  f"..{a}..{b!r}.."
       the receiver is a string literal, every field is auto-numbered (`{}`, `{!r}`, `{!s}`, `{!a}`; no names, indexes or
       format specs), as many positional arguments as fields, no keywords, no `{{`/`}}` ... both evaluate the arguments
       left to right and call format(x, "") / repr / str / ascii on them: the same string, the same calls in the same order.
 R6  `async with A:` whose whole body is `async with B: body`  ==>  `async with A, B: body`   (same for `with`)
       by definition of the multi-item form (PEP 343/492): enter A, enter B, body, exit B, exit A.
 R7  a final `return None` / bare `return` as the LAST statement of a function body  ==>  removed
       (`pass` when the body would become empty); falling off the end returns None.
 R8  `try: (try: B except..: H [else: E]) finally: F`, the inner try being the whole body of the outer and having no
       finally of its own  ==>  one `try/except/[else]/finally` ... the language defines the three-part form as exactly this nesting.
 R9  `from .m import X, Y` for a module m the pinned source imports as `from . import m`  ==>  `from . import m` and
       every load of the names rewritten `m.X`; skipped if X, Y or m is bound anywhere else in the module.  Same objects;
       (the two differ only for code that rebinds `m.X` at run time, which neither aioftp nor the harness does).

The pass is idempotent and leaves the pinned source unchanged up to `ast.unparse` formatting (checked by
`python -m tools.py2v.normalize --selfcheck <src>`: the generators give the same facts with and without it).
"""
import ast
import copy
import sys
from pathlib import Path

TERMINAL = (ast.Return, ast.Raise, ast.Continue, ast.Break)


# ---------------------------------------------------------------- R1
class _IfAssign(ast.NodeTransformer):
    def visit_If(self, node):
        self.generic_visit(node)
        if len(node.body) == 1 and len(node.orelse) == 1:
            a, b = node.body[0], node.orelse[0]
            if isinstance(a, ast.Assign) and isinstance(b, ast.Assign) and len(a.targets) == 1 and len(b.targets) == 1:
                ta, tb = a.targets[0], b.targets[0]
                simple = isinstance(ta, ast.Name) or (isinstance(ta, ast.Attribute) and isinstance(ta.value, ast.Name))
                if simple and ast.dump(ta) == ast.dump(tb):
                    new = ast.Assign(targets=[ta], value=ast.IfExp(test=node.test, body=a.value, orelse=b.value))
                    return ast.copy_location(new, node)
        return node


# ---------------------------------------------------------------- R2
def _names(node, ident):
    return [n for n in ast.walk(node) if isinstance(n, ast.Name) and n.id == ident]


def _has_yield(fn):
    return any(isinstance(n, (ast.Yield, ast.YieldFrom)) for n in ast.walk(fn))


def _def_to_lambda(fn):
    """apply R2 inside one function (all its statement lists)"""
    changed = False
    for holder in ast.walk(fn):
        for field in ("body", "orelse", "finalbody"):
            stmts = getattr(holder, field, None)
            if not isinstance(stmts, list):
                continue
            i = 0
            while i + 1 < len(stmts):
                d = stmts[i]
                ok = (
                    isinstance(d, ast.FunctionDef) and not d.decorator_list and not _has_yield(d)
                    and not (d.args.args or d.args.posonlyargs or d.args.kwonlyargs or d.args.vararg or d.args.kwarg)
                    and len(d.body) == 1 and isinstance(d.body[0], ast.Return) and d.body[0].value is not None
                )
                if ok:
                    uses_all = [n for n in _names(fn, d.name)]
                    uses_next = [n for n in _names(stmts[i + 1], d.name)]
                    if len(uses_all) == 1 and len(uses_next) == 1 and isinstance(uses_next[0].ctx, ast.Load):
                        lam = ast.Lambda(
                            args=ast.arguments(posonlyargs=[], args=[], kwonlyargs=[], kw_defaults=[], defaults=[]),
                            body=d.body[0].value,
                        )
                        stmts[i + 1] = _Replace(uses_next[0], lam).visit(stmts[i + 1])
                        del stmts[i]
                        changed = True
                        continue
                i += 1
    return changed


class _Replace(ast.NodeTransformer):
    def __init__(self, old, new):
        self.old, self.new = old, new

    def visit(self, node):
        if node is self.old:
            return self.new
        return super().visit(node)


# ---------------------------------------------------------------- R3
def _literal_of_constants(v):
    if isinstance(v, ast.Constant):
        return True
    if isinstance(v, (ast.Tuple, ast.List, ast.Set)):
        return all(_literal_of_constants(e) for e in v.elts)
    if isinstance(v, ast.Dict):
        return all(k is not None and _literal_of_constants(k) for k in v.keys) and all(_literal_of_constants(x) for x in v.values)
    return False


def _inline_module_constants(tree):
    parents = {}
    for p in ast.walk(tree):
        for c in ast.iter_child_nodes(p):
            parents[c] = p
    for st in list(tree.body):
        if not (isinstance(st, ast.Assign) and len(st.targets) == 1 and isinstance(st.targets[0], ast.Name)):
            continue
        name = st.targets[0].id
        if not (name.startswith("_") and not name.startswith("__")) or isinstance(st.value, ast.Constant):
            continue
        if not _literal_of_constants(st.value):
            continue
        uses = [n for n in _names(tree, name) if n is not st.targets[0]]
        if not uses:
            continue
        ok = True
        for u in uses:
            p = parents.get(u)
            if not isinstance(u.ctx, ast.Load):
                ok = False
            elif isinstance(p, ast.Subscript) and p.value is u and isinstance(p.ctx, ast.Load):
                pass
            elif isinstance(p, ast.Compare) and u in p.comparators and len(p.ops) == 1 and isinstance(p.ops[0], (ast.In, ast.NotIn)):
                pass
            else:
                ok = False
            # the use must be inside a function (not at import time next to other module state)
            q, inside = u, False
            while q in parents:
                q = parents[q]
                if isinstance(q, (ast.FunctionDef, ast.AsyncFunctionDef)):
                    inside = True
            ok = ok and inside
        if not ok:
            continue
        for u in uses:
            p = parents[u]
            lit = copy.deepcopy(st.value)
            if isinstance(p, ast.Subscript):
                p.value = lit
            else:
                p.comparators[p.comparators.index(u)] = lit
        tree.body.remove(st)


# ---------------------------------------------------------------- R4
def _assigned_names(fn):
    out = set()
    for n in ast.walk(fn):
        if isinstance(n, ast.Name) and isinstance(n.ctx, (ast.Store, ast.Del)):
            out.add(n.id)
        elif isinstance(n, (ast.FunctionDef, ast.AsyncFunctionDef, ast.ClassDef)) and n is not fn:
            out.add(n.name)
        elif isinstance(n, ast.ExceptHandler) and n.name:
            out.add(n.name)
        elif isinstance(n, ast.alias):
            out.add((n.asname or n.name).split(".")[0])
    return out


def _strip_doc(body):
    if body and isinstance(body[0], ast.Expr) and isinstance(body[0].value, ast.Constant) and isinstance(body[0].value.value, str):
        return body[1:]
    return body


def _own_returns(fn):
    """Return statements of fn itself (not of nested functions)"""
    out = []

    def walk(n):
        for c in ast.iter_child_nodes(n):
            if isinstance(c, (ast.FunctionDef, ast.AsyncFunctionDef, ast.Lambda, ast.ClassDef)):
                continue
            if isinstance(c, ast.Return):
                out.append(c)
            walk(c)

    walk(fn)
    return out


_KNOWN = None


def known_helpers():
    """private names the generators or the Coq reference tables mention: those helpers are part of the modelled
    structure (e.g. Server._start_passive_server, Server._build_mlsx_facts_from_stats) and are never inlined"""
    global _KNOWN
    if _KNOWN is None:
        import re
        root = Path(__file__).resolve().parents[2]
        files = list((root / "tools" / "py2v").glob("gen_*.py"))
        for d in ("Model", "Lib", "Proofs", "Props"):
            files += list((root / "coq" / d).glob("*.v"))
        _KNOWN = set()
        for f in files:
            _KNOWN |= set(re.findall(r"\b_[a-z][a-z0-9_]*\b", f.read_text()))
    return _KNOWN


def _tail_assign(body, target):
    """body with every `return E` replaced by `target = E`, provided every return of it is in tail position
    (`if C: ...return` followed by more statements reads as if/else); None when that is not the case"""
    body = list(body)
    if not body:
        return None
    *init, last = body
    for k, st in enumerate(init):
        if isinstance(st, ast.If) and not st.orelse and st.body and isinstance(st.body[-1], ast.Return):
            # `if C: ..return` + rest  ==  `if C: ..return` else: rest
            rest = _tail_assign(body[k + 1:], target)
            then = _tail_assign(st.body, target)
            if rest is None or then is None or any(_stmt_returns(x) for x in init[:k]):
                return None
            return init[:k] + [ast.If(test=st.test, body=then, orelse=rest)]
        if _stmt_returns(st):
            return None
    if isinstance(last, ast.Return):
        if last.value is None:
            return None
        return init + [ast.Assign(targets=[copy.deepcopy(target)], value=last.value)]
    if isinstance(last, ast.If) and last.orelse:
        a, b = _tail_assign(last.body, target), _tail_assign(last.orelse, target)
        if a is None or b is None:
            return None
        return init + [ast.If(test=last.test, body=a, orelse=b)]
    return None


def _stmt_returns(st):
    holder = ast.Module(body=[st], type_ignores=[])
    out = []

    def walk(n):
        for c in ast.iter_child_nodes(n):
            if isinstance(c, (ast.FunctionDef, ast.AsyncFunctionDef, ast.Lambda, ast.ClassDef)):
                continue
            if isinstance(c, ast.Return):
                out.append(c)
            walk(c)

    walk(holder)
    return bool(out)


def _inline_helpers(cls):
    methods = {n.name: n for n in cls.body if isinstance(n, (ast.FunctionDef, ast.AsyncFunctionDef))}
    for hname, h in list(methods.items()):
        if not (hname.startswith("_") and not hname.startswith("__")) or hname in known_helpers():
            continue
        a = h.args
        if h.decorator_list or a.defaults or a.kw_defaults or a.kwonlyargs or a.vararg or a.kwarg or a.posonlyargs:
            continue
        if not a.args or a.args[0].arg != "self" or _has_yield(h):
            continue
        if any(isinstance(n, (ast.Global, ast.Nonlocal)) for n in ast.walk(h)):
            continue
        params = [x.arg for x in a.args[1:]]
        assigned = _assigned_names(h)
        if assigned & set(params) or "self" in assigned:
            continue
        is_async = isinstance(h, ast.AsyncFunctionDef)
        body = _strip_doc(h.body)
        if not body:
            continue
        rets = _own_returns(h)
        # every reference `self.<hname>` in the class (the helper's own body included: recursion -> skip)
        refs = [n for n in ast.walk(cls) if isinstance(n, ast.Attribute) and n.attr == hname]
        if not refs or any(r for r in refs if any(r is x for x in ast.walk(h))):
            continue
        plans = []
        ok = True
        for caller in methods.values():
            if caller is h:
                continue
            crefs = [r for r in refs if any(r is x for x in ast.walk(caller))]
            if not crefs:
                continue
            sites = []
            for holder in ast.walk(caller):
                for field in ("body", "orelse", "finalbody"):
                    stmts = getattr(holder, field, None)
                    if not isinstance(stmts, list):
                        continue
                    for st in stmts:
                        if isinstance(st, ast.For):
                            v = st.iter
                        elif not isinstance(st, (ast.Expr, ast.Return, ast.Assign)) or st.value is None:
                            continue
                        else:
                            v = st.value
                        if is_async:
                            if not isinstance(v, ast.Await):
                                continue
                            v = v.value
                        call_ok = (
                            isinstance(v, ast.Call) and isinstance(v.func, ast.Attribute) and v.func.attr == hname
                            and isinstance(v.func.value, ast.Name) and v.func.value.id == "self" and not v.keywords
                            and len(v.args) == len(params)
                            and all(isinstance(x, ast.Name) and x.id == p for x, p in zip(v.args, params))
                        )
                        if not call_ok:
                            continue
                        if isinstance(st, ast.For):
                            if not (len(rets) == 1 and rets[0] is body[-1] and rets[0].value is not None):
                                continue
                            form = "foriter"
                        elif isinstance(st, ast.Expr):
                            if any(r.value is not None for r in rets):
                                continue
                            if rets and not (len(rets) == 1 and rets[0] is body[-1]):
                                continue
                            form = "expr"
                        elif isinstance(st, ast.Return):
                            form = "return"
                        else:
                            if len(st.targets) != 1 or not isinstance(st.targets[0], ast.Name):
                                continue
                            if _tail_assign(copy.deepcopy(body), st.targets[0]) is None:
                                continue
                            form = "assign"
                        sites.append((stmts, st, form, v.func))
            if len(sites) != len(crefs) or {id(s[3]) for s in sites} != {id(r) for r in crefs}:
                ok = False
                break
            # the helper's locals must be fresh in the caller
            caller_names = {n.id for n in ast.walk(caller) if isinstance(n, ast.Name)} | {x.arg for x in caller.args.args}
            if (assigned - set(params)) & (caller_names - set(params)):
                ok = False
                break
            if is_async and not isinstance(caller, ast.AsyncFunctionDef):
                ok = False
                break
            plans.extend(sites)
        # references outside methods (class level) or uncovered
        if not ok or len(plans) != len(refs):
            continue
        for stmts, st, form, _ in plans:
            new = copy.deepcopy(body)
            if form == "expr":
                if new and isinstance(new[-1], ast.Return):
                    new = new[:-1] or [ast.Pass()]
            elif form == "return":
                if not isinstance(new[-1], (ast.Return, ast.Raise)):
                    new.append(ast.Return(value=ast.Constant(value=None)))
            elif form == "foriter":
                # `for x in self._h(..)`: the call is the first thing the statement evaluates
                st2 = copy.copy(st)
                st2.iter = new[-1].value
                new[-1] = st2
            else:
                new = _tail_assign(new, st.targets[0])
            for n in new:
                ast.copy_location(n, st)
            k = next(i for i, x in enumerate(stmts) if x is st)
            stmts[k:k + 1] = new
        cls.body.remove(h)
        del methods[hname]
        return True
    return False



# ---------------------------------------------------------------- R5
import re as _re

_FIELD = _re.compile(r"\{(![rsa])?\}")


def _format_to_fstring(node):
    """R5 on one Call node; returns a JoinedStr or None"""
    if not (isinstance(node, ast.Call) and isinstance(node.func, ast.Attribute) and node.func.attr == "format"):
        return None
    recv = node.func.value
    if not (isinstance(recv, ast.Constant) and isinstance(recv.value, str)) or node.keywords:
        return None
    if any(isinstance(a, ast.Starred) for a in node.args):
        return None
    text = recv.value
    if "{{" in text or "}}" in text:
        return None
    stripped = _FIELD.sub("", text)
    if "{" in stripped or "}" in stripped:
        return None
    fields = list(_FIELD.finditer(text))
    if len(fields) != len(node.args):
        return None
    values, pos = [], 0
    for m, arg in zip(fields, node.args):
        if m.start() > pos:
            values.append(ast.Constant(value=text[pos:m.start()]))
        conv = {None: -1, "!r": 114, "!s": 115, "!a": 97}[m.group(1)]
        values.append(ast.FormattedValue(value=arg, conversion=conv, format_spec=None))
        pos = m.end()
    if pos < len(text):
        values.append(ast.Constant(value=text[pos:]))
    return ast.JoinedStr(values=values)


class _Format(ast.NodeTransformer):
    def visit_Call(self, node):
        self.generic_visit(node)
        new = _format_to_fstring(node)
        return ast.copy_location(new, node) if new is not None else node


# ---------------------------------------------------------------- R6, R8
class _Nesting(ast.NodeTransformer):
    def _merge_with(self, node):
        self.generic_visit(node)
        if len(node.body) == 1 and type(node.body[0]) is type(node) and not getattr(node, "type_comment", None):
            inner = node.body[0]
            node.items = node.items + inner.items
            node.body = inner.body
        return node

    visit_AsyncWith = _merge_with
    visit_With = _merge_with

    def visit_Try(self, node):
        self.generic_visit(node)
        if node.finalbody and not node.handlers and not node.orelse and len(node.body) == 1 and isinstance(node.body[0], ast.Try):
            inner = node.body[0]
            if not inner.finalbody and inner.handlers:
                inner.finalbody = node.finalbody
                return inner
        return node


# ---------------------------------------------------------------- R7
def _drop_final_return_none(fn):
    last = fn.body[-1]
    if isinstance(last, ast.Return) and (last.value is None or (isinstance(last.value, ast.Constant) and last.value.value is None)):
        fn.body = fn.body[:-1] or [ast.Pass()]
        return True
    return False


# ---------------------------------------------------------------- R9
MODULE_IMPORTS = {"errors", "pathio"}  # what the pinned source imports as `from . import m`


def _module_style_imports(tree):
    for st in list(tree.body):
        if not (isinstance(st, ast.ImportFrom) and st.level == 1 and st.module in MODULE_IMPORTS):
            continue
        if any(a.asname for a in st.names) or any(a.name == "*" for a in st.names):
            continue
        m = st.module
        names = [a.name for a in st.names]
        bound_elsewhere = set()
        for n in ast.walk(tree):
            if isinstance(n, ast.Name) and isinstance(n.ctx, (ast.Store, ast.Del)):
                bound_elsewhere.add(n.id)
            elif isinstance(n, (ast.FunctionDef, ast.AsyncFunctionDef, ast.ClassDef)):
                bound_elsewhere.add(n.name)
            elif isinstance(n, ast.arg):
                bound_elsewhere.add(n.arg)
            elif isinstance(n, ast.alias) and n not in st.names:
                bound_elsewhere.add((n.asname or n.name).split(".")[0])
            elif isinstance(n, ast.ExceptHandler) and n.name:
                bound_elsewhere.add(n.name)
        already = any(
            isinstance(x, ast.ImportFrom) and x.level == 1 and x.module is None and any(a.name == m and not a.asname for a in x.names)
            for x in tree.body
        )
        if (set(names) | ({m} if not already else set())) & bound_elsewhere:
            continue

        class _R(ast.NodeTransformer):
            def visit_Name(self, n):
                if n.id in names and isinstance(n.ctx, ast.Load):
                    return ast.copy_location(ast.Attribute(value=ast.Name(id=m, ctx=ast.Load()), attr=n.id, ctx=ast.Load()), n)
                return n

        k = tree.body.index(st)
        _R().visit(tree)
        if already:
            del tree.body[k]
        else:
            tree.body[k] = ast.copy_location(ast.ImportFrom(module=None, names=[ast.alias(name=m)], level=1), st)


# ---------------------------------------------------------------- R10
def _inline_hoisted_subscripts(fn):
    """R10: `x = b[<constant index or constant slice>]` at the top level of a function body, x assigned nowhere else,
    b a plain name that is never stored to at or after that line, the statement not inside a loop, every use of x a
    load at a later line, the first of them in the test / value of the statement that directly follows (so the first
    evaluation, which may raise IndexError, stays where it was)  ==>  the subscript written at each use, the assignment
    removed.  Indexing a name with a
    constant has no effect of its own and, b not being rebound, gives the same object at each use (for the immutable
    str/bytes/tuple values this code indexes; a mutable b would make it differ only if mutated in between, hence the
    rule is limited to functions that never call a method on b other than the str-like ones ... kept simple: b must
    not appear as the receiver of any call that is a statement on its own)."""
    changed = False
    for st in list(fn.body):
        if not (isinstance(st, ast.Assign) and len(st.targets) == 1 and isinstance(st.targets[0], ast.Name)):
            continue
        v = st.value
        if not (isinstance(v, ast.Subscript) and isinstance(v.value, ast.Name)):
            continue
        sl = v.slice
        const_index = isinstance(sl, ast.Constant) or (
            isinstance(sl, ast.Slice) and all(p is None or isinstance(p, ast.Constant) for p in (sl.lower, sl.upper, sl.step)))
        if not const_index:
            continue
        x, b = st.targets[0].id, v.value.id
        if x == b:
            continue
        stores_x = [n for n in ast.walk(fn) if isinstance(n, ast.Name) and n.id == x and not isinstance(n.ctx, ast.Load)]
        if len(stores_x) != 1:
            continue
        if any(isinstance(n, ast.Name) and n.id == b and not isinstance(n.ctx, ast.Load) and n.lineno >= st.lineno for n in ast.walk(fn)):
            continue
        if any(isinstance(n, ast.Expr) and isinstance(n.value, ast.Call) and isinstance(n.value.func, ast.Attribute)
               and isinstance(n.value.func.value, ast.Name) and n.value.func.value.id == b for n in ast.walk(fn)):
            continue
        loads = [n for n in ast.walk(fn) if isinstance(n, ast.Name) and n.id == x and isinstance(n.ctx, ast.Load)]
        if not loads or any(n.lineno <= st.lineno for n in loads):
            continue
        if any(isinstance(n, (ast.FunctionDef, ast.AsyncFunctionDef, ast.Lambda)) and n is not fn and any(m in loads for m in ast.walk(n)) for n in ast.walk(fn)):
            continue
        if len(loads) < 2:
            continue  # a one-use temporary is the pinned source's own style in many places: leave it
        k = fn.body.index(st)
        nxt = fn.body[k + 1] if k + 1 < len(fn.body) else None
        first = min(loads, key=lambda n: (n.lineno, n.col_offset))
        if nxt is None or not any(n is first for n in ast.walk(nxt)):
            continue  # the first evaluation must stay where it was: in the statement that directly follows
        head = nxt.test if isinstance(nxt, (ast.If, ast.While)) else nxt.value if isinstance(nxt, (ast.Assign, ast.Expr, ast.Return)) else None
        if head is None or not any(n is first for n in ast.walk(head)):
            continue  # ... and be the first thing that statement evaluates (its test / its value)
        class _S(ast.NodeTransformer):
            def visit_Name(self, n):
                if n.id == x and isinstance(n.ctx, ast.Load):
                    return ast.copy_location(copy.deepcopy(v), n)
                return n
        fn.body.remove(st)
        _S().visit(fn)
        changed = True
    return changed


# ---------------------------------------------------------------- driver
def nnf(test):
    """negation normal form of a condition USED AS A TEST (only its truth value and the order in which its operands are
    evaluated matter): `not (a and b)` = `not a or not b`, `not (a or b)` = `not a and not b` (de Morgan keeps the
    left-to-right short-circuit order), `not not a` = `a`, `not a == b` = `a != b` (also `in` / `not in`, `is` / `is not`;
    never `<` / `>=`, which differ on partial orders), nested `and`/`or` of the same kind flattened.  For generators that
    compare guards as text."""
    def neg(e):
        if isinstance(e, ast.UnaryOp) and isinstance(e.op, ast.Not):
            return pos(e.operand)
        if isinstance(e, ast.BoolOp):
            op = ast.Or() if isinstance(e.op, ast.And) else ast.And()
            return flat(ast.BoolOp(op=op, values=[neg(v) for v in e.values]))
        if isinstance(e, ast.Compare) and len(e.ops) == 1:
            flip = {ast.Eq: ast.NotEq, ast.NotEq: ast.Eq, ast.In: ast.NotIn, ast.NotIn: ast.In, ast.Is: ast.IsNot, ast.IsNot: ast.Is}
            for a, b in flip.items():
                if isinstance(e.ops[0], a):
                    return ast.Compare(left=e.left, ops=[b()], comparators=e.comparators)
        return ast.UnaryOp(op=ast.Not(), operand=e)

    def pos(e):
        if isinstance(e, ast.UnaryOp) and isinstance(e.op, ast.Not):
            return neg(e.operand)
        if isinstance(e, ast.BoolOp):
            return flat(ast.BoolOp(op=e.op, values=[pos(v) for v in e.values]))
        return e

    def flat(b):
        vals = []
        for v in b.values:
            if isinstance(v, ast.BoolOp) and type(v.op) is type(b.op):
                vals.extend(v.values)
            else:
                vals.append(v)
        b.values = vals
        return b

    return ast.fix_missing_locations(pos(copy.deepcopy(test)))


def if_assign_to_ifexp(node):
    """R1, applied by the generators that read a conditional store (StreamIO.__init__): not part of the global
    pass because the pinned source itself uses both spellings"""
    return ast.fix_missing_locations(_IfAssign().visit(node))


def normalize_tree(tree):
    for _ in range(8):  # to a fixed point (helpers of helpers)
        before = ast.dump(tree)
        for cls in [n for n in ast.walk(tree) if isinstance(n, ast.ClassDef)]:
            while _inline_helpers(cls):
                pass
        _inline_module_constants(tree)
        for fn in [n for n in ast.walk(tree) if isinstance(n, (ast.FunctionDef, ast.AsyncFunctionDef))]:
            _def_to_lambda(fn)
            _drop_final_return_none(fn)
            _inline_hoisted_subscripts(fn)
        _module_style_imports(tree)
        tree = _Nesting().visit(tree)
        tree = _Format().visit(tree)
        ast.fix_missing_locations(tree)
        if ast.dump(tree) == before:
            break
    return tree


def normalize_source(text):
    return ast.unparse(normalize_tree(ast.parse(text))) + "\n"


def normalized_dir(src, out):
    """write the normalised copy of every module of `src` (…/aioftp) into `out`/aioftp and return that path"""
    src, dst = Path(src), Path(out) / "aioftp"
    dst.mkdir(parents=True, exist_ok=True)
    for old in dst.glob("*.py"):
        old.unlink()
    for f in sorted(src.glob("*.py")):
        (dst / f.name).write_text(normalize_source(f.read_text()))
    return dst


def normalized_src(src):
    """for harness code that calls a generator directly: the normalised copy of `src` (…/aioftp) in a temp dir"""
    import tempfile
    return normalized_dir(src, tempfile.mkdtemp(prefix="py2v_normsrc_"))


if __name__ == "__main__":
    if sys.argv[1:2] == ["--selfcheck"]:
        # the pinned source is its own normal form: normalising changes nothing but the formatting
        bad = 0
        for f in sorted(Path(sys.argv[2]).glob("*.py")):
            plain = ast.unparse(ast.parse(f.read_text())) + "\n"
            if plain != normalize_source(f.read_text()):
                print("normalize: changes", f)
                bad = 1
        sys.exit(bad)
    print(normalize_source(Path(sys.argv[1]).read_text()))
