"""Gen/Timeouts.v: which timeout governs which await (C16).

Pure ast walk over common.py and server.py, no execution of repo code, fail closed
(Unclassified => `translator_ok_timeouts := false` through __main__).  Facts emitted, all as raw strings:

  common.py
    * with_timeout: the wrapper is `coro = f(..); timeout = getattr(cls, name); return asyncio.wait_for(coro, timeout)`
      -> the two argument texts of wait_for and the binding of `timeout`;
    * StreamIO.__init__: defaults of the keyword-only parameters and the two `self.X = <A, fallback B>` assignments
      with their semantics: `A or B` ("or": 0 falls back too -- the shape before the F16 repair) or
      `B if A is None else A` ("is-none": only None falls back -- the repaired shape);
    * StreamIO methods: method -> timeout attribute named by its with_timeout decorator;
    * ThrottleStreamIO.__init__ forwards *args/**kwargs to StreamIO.__init__;
      ThrottleStreamIO.read/readline/write: `await self.wait(name)` is the FIRST statement and precedes the
      timed `await super().<m>(..)` (the throttle sleep is outside the wait_for).
  server.py
    * Server.__init__: defaults of the three timeout parameters and `self.X = X`;
    * every StreamIO/ThrottleStreamIO construction site: enclosing function, target, keyword -> expression text;
    * the keywords of the Connection(...) call (connection.socket_timeout = self.socket_timeout ...);
    * ConnectionConditions.__call__: timeout source when wait / otherwise, the wait_for call, the handler
      class, the actions of the handler (response(self.fail_code), return True), the fall-through call of f;
    * per @worker function: its ConnectionConditions decorator (fields, wait, fail_code), decorator order, and
      the data-stream operations its body performs (write / iter_by_block -> read);
    * dispatcher: parse_command is in the initial pending set and is re-spawned in the `isinstance(result, tuple)`
      branch; parse_command starts with `await stream.readline()`; response_writer writes through the same stream;
      parse_command's return statements (tuple or not), the exception classes it handles itself, everything it awaits."""
import ast
from pathlib import Path

from . import emit
from .gen_dispatch import S, Unclassified, is_attr, own_nodes, slist, src

TIMEOUT_KW = ("timeout", "read_timeout", "write_timeout")
STREAM_CLASSES = ("StreamIO", "ThrottleStreamIO")


def pairs(l):
    return "[" + "; ".join(f"({S(a)}, {S(b)})" for a, b in l) + "]"


def preorder(stmts):
    """nodes of a statement list in source order (depth-first, pre-order)"""
    out = []

    def walk(n):
        out.append(n)
        for c in ast.iter_child_nodes(n):
            walk(c)

    for st in stmts:
        walk(st)
    return out


def cls_of(tree, name):
    for n in tree.body:
        if isinstance(n, ast.ClassDef) and n.name == name:
            return n
    raise Unclassified(f"class {name} not found")


def fn_of(scope, name):
    for n in scope.body:
        if isinstance(n, (ast.FunctionDef, ast.AsyncFunctionDef)) and n.name == name:
            return n
    raise Unclassified(f"function {name} not found in {getattr(scope, 'name', 'module')}")


def body_nodoc(fn):
    b = list(fn.body)
    if b and isinstance(b[0], ast.Expr) and isinstance(b[0].value, ast.Constant) and isinstance(b[0].value.value, str):
        b = b[1:]
    return b


def kwonly_defaults(fn, names):
    out = []
    a = fn.args
    for arg, d in zip(a.kwonlyargs, a.kw_defaults):
        if arg.arg in names:
            if d is None:
                raise Unclassified(f"{fn.name}: keyword-only {arg.arg} has no default")
            out.append((arg.arg, src(d)))
    pos = a.args[len(a.args) - len(a.defaults):] if a.defaults else []
    for arg, d in zip(pos, a.defaults):
        if arg.arg in names:
            out.append((arg.arg, src(d)))
    if sorted(k for k, _ in out) != sorted(names):
        raise Unclassified(f"{fn.name}: parameters {names} not all found with defaults (got {out})")
    return [(k, dict(out)[k]) for k in names]


# ------------------------------------------------------------------ common.py
def with_timeout_facts(tree):
    outer = fn_of(tree, "_with_timeout")
    deco = [n for n in outer.body if isinstance(n, ast.FunctionDef)]
    if len(deco) != 1:
        raise Unclassified("_with_timeout: expected one nested decorator")
    wr = [n for n in deco[0].body if isinstance(n, (ast.FunctionDef, ast.AsyncFunctionDef))]
    if len(wr) != 1:
        raise Unclassified("_with_timeout: expected one wrapper")
    wr = wr[0]
    binds = {}
    ret = None
    for st in wr.body:
        if isinstance(st, ast.Assign) and len(st.targets) == 1 and isinstance(st.targets[0], ast.Name):
            binds[st.targets[0].id] = src(st.value)
        elif isinstance(st, ast.Return):
            ret = st.value
        else:
            raise Unclassified(f"_with_timeout wrapper statement {src(st)}")
    if isinstance(ret, ast.Await):
        ret = ret.value
    if not (isinstance(ret, ast.Call) and src(ret.func) == "asyncio.wait_for" and len(ret.args) == 2 and not ret.keywords):
        raise Unclassified(f"_with_timeout wrapper does not return asyncio.wait_for(a, b): {src(ret) if ret else None}")

    def resolve(e):
        t = src(e)
        return binds.get(t, t) if isinstance(e, ast.Name) else t

    wt = fn_of(tree, "with_timeout")
    # bare use `@with_timeout` means the attribute "timeout"
    bare = None
    for n in ast.walk(wt):
        if isinstance(n, ast.Call) and isinstance(n.func, ast.Call) and src(n.func.func) == "_with_timeout":
            bare = ast.literal_eval(n.func.args[0])
    named_ok = any(
        isinstance(n, ast.Return) and isinstance(n.value, ast.Call) and src(n.value) == "_with_timeout(name)" for n in ast.walk(wt)
    )
    if bare is None or not named_ok:
        raise Unclassified("with_timeout: dispatch on isinstance(name, str) not recognised")
    return resolve(ret.args[0]), resolve(ret.args[1]), bare


def is_none_test(t):
    """`X is None` -> (X, True); `X is not None` -> (X, False); anything else -> None"""
    if (
        isinstance(t, ast.Compare)
        and len(t.ops) == 1
        and isinstance(t.ops[0], (ast.Is, ast.IsNot))
        and isinstance(t.left, ast.Name)
        and isinstance(t.comparators[0], ast.Constant)
        and t.comparators[0].value is None
    ):
        return t.left.id, isinstance(t.ops[0], ast.Is)
    return None


def fallback_shape(attr, v):
    """value of `self.<attr> = ...` in StreamIO.__init__ -> (semantics, primary parameter, fallback parameter)
         A or B                                   -> ("or", A, B)       a FALSY A (None and 0) yields B  [the old, defective shape]
         B if A is None else A                    -> ("is-none", A, B)  only A = None yields B            [the repaired shape]
         A if A is not None else B                -> ("is-none", A, B)
         A                                        -> ("name", A, A)
       anything else is not classified (fail closed)."""
    if isinstance(v, ast.BoolOp) and isinstance(v.op, ast.Or) and len(v.values) == 2 and all(isinstance(x, ast.Name) for x in v.values):
        return "or", v.values[0].id, v.values[1].id
    if isinstance(v, ast.IfExp) and isinstance(v.body, ast.Name) and isinstance(v.orelse, ast.Name):
        t = is_none_test(v.test)
        if t is not None:
            tested, when_none = t
            primary, fallback = (v.orelse.id, v.body.id) if when_none else (v.body.id, v.orelse.id)
            if primary == tested:
                return "is-none", primary, fallback
    if isinstance(v, ast.Name):
        return "name", v.id, v.id
    raise Unclassified(f"StreamIO.__init__: self.{attr} = {src(v)}")


def streamio_facts(tree, bare_attr):
    c = cls_of(tree, "StreamIO")
    from .normalize import if_assign_to_ifexp
    init = if_assign_to_ifexp(fn_of(c, "__init__"))  # `if T: self.x = A else: self.x = B` reads as `self.x = A if T else B`
    defaults = kwonly_defaults(init, list(TIMEOUT_KW))
    assigns = []
    for st in body_nodoc(init):
        if isinstance(st, ast.Assign) and len(st.targets) == 1 and is_attr(st.targets[0], "self"):
            attr = st.targets[0].attr
            v = st.value
            if attr in ("read_timeout", "write_timeout", "timeout"):
                assigns.append((attr,) + fallback_shape(attr, v))
            elif not isinstance(v, ast.Name):
                raise Unclassified(f"StreamIO.__init__: self.{attr} = {src(v)}")
        else:
            raise Unclassified(f"StreamIO.__init__ statement {src(st)}")
    timed = []
    for m in c.body:
        if not isinstance(m, (ast.FunctionDef, ast.AsyncFunctionDef)) or m.name == "__init__":
            continue
        attr = None
        for d in m.decorator_list:
            if isinstance(d, ast.Call) and src(d.func) == "with_timeout" and len(d.args) == 1 and isinstance(d.args[0], ast.Constant):
                attr = d.args[0].value
            elif isinstance(d, ast.Name) and d.id == "with_timeout":
                attr = bare_attr
            else:
                raise Unclassified(f"StreamIO.{m.name}: decorator {src(d)}")
        awaited = [src(n.value.func) for n in own_nodes(m) if isinstance(n, ast.Await) and isinstance(n.value, ast.Call)]
        if awaited and attr is None:
            attr = ""  # an awaiting method with no timeout at all
        if attr is not None:
            timed.append((m.name, attr, awaited))
    return defaults, assigns, timed


def throttle_stream_facts(tree):
    c = cls_of(tree, "ThrottleStreamIO")
    if [src(b) for b in c.bases] != ["StreamIO"]:
        raise Unclassified("ThrottleStreamIO bases")
    init = fn_of(c, "__init__")
    fwd = any(src(st) == "super().__init__(*args, **kwargs)" for st in body_nodoc(init))
    if init.args.kwarg is None or init.args.vararg is None:
        fwd = False
    out = []
    for name in ("read", "readline", "write"):
        m = fn_of(c, name)
        b = body_nodoc(m)
        first = b[0] if b else None
        thr = None
        if (
            isinstance(first, ast.Expr)
            and isinstance(first.value, ast.Await)
            and isinstance(first.value.value, ast.Call)
            and src(first.value.value.func) == "self.wait"
            and len(first.value.value.args) == 1
        ):
            thr = ast.literal_eval(first.value.value.args[0])
        sup_idx = [i for i, st in enumerate(b) if f"await super().{name}(" in src(st)]
        if len(sup_idx) != 1:
            raise Unclassified(f"ThrottleStreamIO.{name}: expected exactly one await super().{name}(..)")
        out.append((name, thr if thr is not None else "", thr is not None and sup_idx[0] > 0))
    # any other override of a timed method would bypass StreamIO's decorators
    for m in c.body:
        if isinstance(m, (ast.FunctionDef, ast.AsyncFunctionDef)) and m.name == "readexactly":
            raise Unclassified("ThrottleStreamIO overrides readexactly")
    return fwd, out


# ------------------------------------------------------------------ server.py
def server_init_facts(server):
    init = fn_of(server, "__init__")
    names = ["socket_timeout", "idle_timeout", "wait_future_timeout"]
    defaults = kwonly_defaults(init, names)
    stores = []
    for n in own_nodes(init):
        if isinstance(n, ast.Assign) and len(n.targets) == 1 and is_attr(n.targets[0], "self") and n.targets[0].attr in names:
            stores.append((n.targets[0].attr, src(n.value)))
    if sorted(k for k, _ in stores) != sorted(names):
        raise Unclassified(f"Server.__init__: stores of {names}: {stores}")
    # nobody else writes these attributes of the server
    for m in server.body:
        if isinstance(m, (ast.FunctionDef, ast.AsyncFunctionDef)) and m.name != "__init__":
            for n in ast.walk(m):
                if isinstance(n, (ast.Assign, ast.AugAssign)):
                    for t in n.targets if isinstance(n, ast.Assign) else [n.target]:
                        if isinstance(t, ast.Attribute) and t.attr in names:
                            raise Unclassified(f"{m.name} writes .{t.attr}")
    return defaults, stores


def stream_sites(server):
    """every construction of a StreamIO/ThrottleStreamIO in the Server class"""
    sites = []

    def visit(fn, qual):
        for st in fn.body:
            if isinstance(st, (ast.FunctionDef, ast.AsyncFunctionDef)):
                visit(st, qual + "." + st.name)
        for n in own_nodes(fn):
            if isinstance(n, ast.Call) and isinstance(n.func, ast.Name) and n.func.id in STREAM_CLASSES:
                raise_if = [k for k in n.keywords if k.arg is None]
                if raise_if:
                    raise Unclassified(f"{qual}: {n.func.id}(**...)")
                if len(n.args) != 2:
                    raise Unclassified(f"{qual}: {n.func.id} positional arguments {len(n.args)}")
                kws = []
                for k in n.keywords:
                    if k.arg == "throttles":
                        continue
                    if k.arg not in TIMEOUT_KW:
                        raise Unclassified(f"{qual}: {n.func.id} keyword {k.arg}")
                    kws.append((k.arg, src(k.value)))
                # what it is bound to
                target = None
                for a in own_nodes(fn):
                    if isinstance(a, ast.Assign) and a.value is n:
                        target = " = ".join(src(t) for t in a.targets)
                if target is None:
                    raise Unclassified(f"{qual}: {n.func.id}(..) is not assigned")
                sites.append((qual, target, n.func.id, kws))
        return sites

    for m in server.body:
        if isinstance(m, (ast.FunctionDef, ast.AsyncFunctionDef)):
            visit(m, m.name)
    return sites


def connection_kwargs(server):
    disp = fn_of(server, "dispatcher")
    calls = [n for n in own_nodes(disp) if isinstance(n, ast.Call) and isinstance(n.func, ast.Name) and n.func.id == "Connection"]
    if len(calls) != 1:
        raise Unclassified("dispatcher: expected one Connection(...) call")
    c = calls[0]
    if c.args or any(k.arg is None for k in c.keywords):
        raise Unclassified("Connection(...) with positional / ** arguments")
    out = [(k.arg, src(k.value)) for k in c.keywords if k.arg.endswith("_timeout") or k.arg == "command_connection"]
    # handlers must not overwrite connection.<x>_timeout
    for m in server.body:
        for n in ast.walk(m):
            if isinstance(n, (ast.Assign, ast.AugAssign, ast.Delete)):
                ts = n.targets if not isinstance(n, ast.AugAssign) else [n.target]
                for t in ts:
                    if is_attr(t, "connection") and t.attr.endswith("_timeout"):
                        raise Unclassified(f"connection.{t.attr} is written outside Connection(...)")
    return out


def conncond_facts(tree):
    c = cls_of(tree, "ConnectionConditions")
    call = fn_of(c, "__call__")
    wr = [n for n in call.body if isinstance(n, ast.AsyncFunctionDef)]
    if len(wr) != 1:
        raise Unclassified("ConnectionConditions.__call__: expected one async wrapper")
    wr = wr[0]
    when_wait = otherwise = None
    tr = None
    fall = None
    for st in wr.body:
        if isinstance(st, ast.If) and src(st.test) == "self.wait":
            if len(st.body) == 1 and len(st.orelse) == 1 and all(
                isinstance(x, ast.Assign) and src(x.targets[0]) == "timeout" for x in (st.body[0], st.orelse[0])
            ):
                when_wait, otherwise = src(st.body[0].value), src(st.orelse[0].value)
            else:
                raise Unclassified("ConnectionConditions: `if self.wait` shape")
        elif isinstance(st, ast.Try):
            if tr is not None:
                raise Unclassified("ConnectionConditions: two try statements")
            tr = st
        elif isinstance(st, ast.Return):
            fall = src(st.value)
        elif isinstance(st, ast.Assign):
            pass
        else:
            raise Unclassified(f"ConnectionConditions wrapper statement {src(st)[:60]}")
    if when_wait is None or tr is None or fall is None:
        raise Unclassified("ConnectionConditions wrapper: missing if/try/return")
    if len(tr.body) != 1 or tr.orelse or tr.finalbody or len(tr.handlers) != 1:
        raise Unclassified("ConnectionConditions: try shape")
    aw = tr.body[0]
    if not (isinstance(aw, ast.Expr) and isinstance(aw.value, ast.Await) and isinstance(aw.value.value, ast.Call)):
        raise Unclassified("ConnectionConditions: try body is not a single await")
    wf = aw.value.value
    if src(wf.func) != "asyncio.wait_for" or len(wf.args) != 2 or wf.keywords:
        raise Unclassified(f"ConnectionConditions: awaits {src(wf)}")
    h = tr.handlers[0]
    actions = []
    for n in preorder(h.body):
        if isinstance(n, ast.Call) and is_attr(n.func, "connection", "response"):
            actions.append("response:" + src(n.args[0]))
        elif isinstance(n, ast.Return):
            actions.append("return:" + (src(n.value) if n.value is not None else "None"))
        elif isinstance(n, (ast.Raise, ast.Continue, ast.Break)):
            actions.append(type(n).__name__.lower())
    guard = [src(n.test) for n in preorder(h.body) if isinstance(n, ast.If) and "done()" in src(n.test)]
    return {
        "when_wait": when_wait,
        "otherwise": otherwise,
        "wait_for": [src(a) for a in wf.args],
        "except": src(h.type) if h.type else "BaseException",
        "actions": actions,
        "guards": guard,
        "fall": fall,
    }


def worker_facts(server, cc_consts):
    out = []
    for m in server.body:
        if not isinstance(m, (ast.FunctionDef, ast.AsyncFunctionDef)):
            continue
        for w in m.body:
            if not isinstance(w, (ast.FunctionDef, ast.AsyncFunctionDef)):
                continue
            names = [src(d.func) if isinstance(d, ast.Call) else src(d) for d in w.decorator_list]
            if "worker" not in names:
                continue
            if names != ["ConnectionConditions", "worker"]:
                raise Unclassified(f"{w.name}: decorator stack {names}")
            d = w.decorator_list[0]
            fields = []
            for a in d.args:
                if not is_attr(a, "ConnectionConditions") or a.attr not in cc_consts:
                    raise Unclassified(f"{w.name}: ConnectionConditions argument {src(a)}")
                fields.append(cc_consts[a.attr][0])
            wait, fail = "False", "503"
            for k in d.keywords:
                if k.arg == "wait":
                    wait = src(k.value)
                elif k.arg == "fail_code":
                    fail = ast.literal_eval(k.value)
                elif k.arg != "fail_info":
                    raise Unclassified(f"{w.name}: ConnectionConditions keyword {k.arg}")
            # the local name bound to the detached data stream (`<name> = connection.data_connection`):
            # found by what it is bound to, not by how it is spelled
            bound = [
                n.targets[0].id
                for n in own_nodes(w)
                if isinstance(n, ast.Assign) and len(n.targets) == 1 and isinstance(n.targets[0], ast.Name)
                and is_attr(n.value, "connection", "data_connection")
            ]
            if len(set(bound)) != 1:
                raise Unclassified(f"{w.name}: stream is not connection.data_connection")
            var = bound[0]
            ops = []
            for n in own_nodes(w):
                if isinstance(n, ast.Call) and isinstance(n.func, ast.Attribute) and isinstance(n.func.value, ast.Name) and n.func.value.id == var:
                    op = {"iter_by_block": "read", "iter_by_line": "readline"}.get(n.func.attr, n.func.attr)
                    if op not in ("read", "readline", "readexactly", "write", "close"):
                        raise Unclassified(f"{w.name}: stream.{n.func.attr}")
                    if op not in ops:
                        ops.append(op)
            out.append((w.name, m.name, fields, wait, fail, ops))
    if not out:
        raise Unclassified("no @worker functions found")
    return out


def dispatcher_respawn(server):
    disp = fn_of(server, "dispatcher")
    init_pc = None
    writer_stream = None
    for n in own_nodes(disp):
        if isinstance(n, ast.Assign) and src(n.targets[0]) == "pending" and isinstance(n.value, ast.Set):
            for e in n.value.elts:
                t = src(e)
                if t.startswith("asyncio.create_task(self.parse_command("):
                    init_pc = src(e.args[0].args[0])
                if t.startswith("asyncio.create_task(self.response_writer("):
                    writer_stream = src(e.args[0].args[0])
    respawn = None
    for n in own_nodes(disp):
        if isinstance(n, ast.If) and src(n.test) == "isinstance(result, tuple)":
            for st in n.body:
                t = src(st)
                if t.startswith("pending.add(asyncio.create_task(self.parse_command("):
                    respawn = src(st.value.args[0].args[0].args[0])
    if init_pc is None or writer_stream is None:
        raise Unclassified("dispatcher: initial pending set not recognised")
    pc = fn_of(server, "parse_command")
    b = body_nodoc(pc)
    first = src(b[0]) if b else ""
    rw = fn_of(server, "response_writer")
    rw_writes = any("self.write_response(stream" in src(n) for n in ast.walk(rw) if isinstance(n, ast.Await))
    wl = fn_of(server, "write_line")
    wl_write = [src(n.value) for n in ast.walk(wl) if isinstance(n, ast.Await)]
    # how parse_command can complete: every `return` (a tuple is the only result for which the dispatcher starts the
    # next reader), every exception it swallows (`except` clauses), the awaits it performs besides the timed readline
    pc_returns = ["tuple" if isinstance(n.value, ast.Tuple) else src(n.value) if n.value is not None else "None"
                  for n in own_nodes(pc) if isinstance(n, ast.Return)]
    pc_handlers = [src(h.type) if h.type is not None else "BaseException"
                   for n in own_nodes(pc) if isinstance(n, ast.Try) for h in n.handlers]
    pc_awaits = [src(n.value) for n in own_nodes(pc) if isinstance(n, ast.Await)]
    return init_pc, respawn or "", first, writer_stream, rw_writes, wl_write, pc_returns, pc_handlers, pc_awaits


def generate(src_dir):
    src_dir = Path(src_dir)
    common = ast.parse((src_dir / "common.py").read_text())
    server_t = ast.parse((src_dir / "server.py").read_text())
    server = cls_of(server_t, "Server")

    wf_a, wf_b, bare = with_timeout_facts(common)
    s_defaults, s_assigns, s_timed = streamio_facts(common, bare)
    fwd, thr = throttle_stream_facts(common)
    srv_defaults, srv_stores = server_init_facts(server)
    sites = stream_sites(server)
    conn_kw = connection_kwargs(server)
    cc = conncond_facts(server_t)
    from .gen_dispatch import class_consts

    workers = worker_facts(server, class_consts(cls_of(server_t, "ConnectionConditions")))
    init_pc, respawn, pc_first, writer_stream, rw_writes, wl_write, pc_returns, pc_handlers, pc_awaits = dispatcher_respawn(server)

    o = emit.HEADER.format(src=str(src_dir / "{common,server}.py"))
    o += "From Coq Require Import String.\nOpen Scope string_scope.\n\n"
    o += "Definition translator_ok_timeouts : bool := true.\n\n"
    o += "(* common.py: with_timeout wrapper returns asyncio.wait_for(<coro>, <timeout>) *)\n"
    o += f"Definition with_timeout_coro : string := {S(wf_a)}.\n"
    o += f"Definition with_timeout_timeout : string := {S(wf_b)}.\n"
    o += f"Definition with_timeout_bare_attr : string := {S(bare)}.\n\n"
    o += "(* StreamIO.__init__: keyword defaults and `self.X = <A with fallback B>`: (X, (semantics, (A, B))),\n"
    o += "   semantics \"or\" = `A or B` (falsy A -> B), \"is-none\" = `B if A is None else A`, \"name\" = plain `A` *)\n"
    o += f"Definition streamio_defaults : list (string * string) := {pairs(s_defaults)}.\n"
    o += "Definition streamio_init : list (string * (string * (string * string))) := [" + "; ".join(
        f"({S(a)}, ({S(sem)}, ({S(b)}, {S(c)})))" for a, sem, b, c in s_assigns
    ) + "].\n"
    o += "(* StreamIO awaiting methods: (method, timeout attribute (\"\" = none), awaited callees) *)\n"
    o += "Definition streamio_timed : list (string * (string * list string)) := [" + "; ".join(
        f"({S(m)}, ({S(a)}, {slist(aw)}))" for m, a, aw in s_timed
    ) + "].\n"
    o += f"Definition throttle_init_forwards : bool := {emit.boolean(fwd)}.\n"
    o += "(* ThrottleStreamIO: (method, throttle name awaited first, that wait precedes the timed super() call) *)\n"
    o += "Definition throttle_methods : list (string * (string * bool)) := [" + "; ".join(
        f"({S(m)}, ({S(t)}, {emit.boolean(b)}))" for m, t, b in thr
    ) + "].\n\n"
    o += "(* server.py *)\n"
    o += f"Definition server_defaults : list (string * string) := {pairs(srv_defaults)}.\n"
    o += f"Definition server_stores : list (string * string) := {pairs(srv_stores)}.\n"
    o += f"Definition connection_kwargs : list (string * string) := {pairs(conn_kw)}.\n"
    o += "(* StreamIO construction sites: (enclosing function, (assignment target, keyword -> expression)) *)\n"
    o += "Definition stream_sites : list (string * (string * list (string * string))) := [\n  " + ";\n  ".join(
        f"({S(q)}, ({S(t)}, {pairs(k)}))" for q, t, _, k in sites
    ) + "\n].\n\n"
    o += "(* ConnectionConditions.__call__ wrapper *)\n"
    o += f"Definition cc_timeout_when_wait : string := {S(cc['when_wait'])}.\n"
    o += f"Definition cc_timeout_otherwise : string := {S(cc['otherwise'])}.\n"
    o += f"Definition cc_wait_for_args : list string := {slist(cc['wait_for'])}.\n"
    o += f"Definition cc_except : string := {S(cc['except'])}.\n"
    o += f"Definition cc_except_guards : list string := {slist(cc['guards'])}.\n"
    o += f"Definition cc_except_actions : list string := {slist(cc['actions'])}.\n"
    o += f"Definition cc_fallthrough : string := {S(cc['fall'])}.\n\n"
    o += "(* @worker functions: (name, (owner, fields, wait, fail_code, data-stream operations)) *)\n"
    o += "Definition data_workers : list (string * (string * list string * string * string * list string)) := [\n  " + ";\n  ".join(
        f"({S(n)}, ({S(ow)}, {slist(f)}, {S(w)}, {S(fc)}, {slist(ops)}))" for n, ow, f, w, fc, ops in workers
    ) + "\n].\n\n"
    o += "(* dispatcher *)\n"
    o += f"Definition parse_command_initial_stream : string := {S(init_pc)}.\n"
    o += f"Definition parse_command_respawn_stream : string := {S(respawn)}.\n"
    o += f"Definition parse_command_first_statement : string := {S(pc_first)}.\n"
    o += f"Definition response_writer_stream : string := {S(writer_stream)}.\n"
    o += f"Definition response_writer_writes_stream : bool := {emit.boolean(rw_writes)}.\n"
    o += f"Definition write_line_awaits : list string := {slist(wl_write)}.\n"
    o += "(* parse_command: kinds of its return statements, exception classes it handles itself, everything it awaits *)\n"
    o += f"Definition parse_command_returns : list string := {slist(pc_returns)}.\n"
    o += f"Definition parse_command_handles : list string := {slist(pc_handlers)}.\n"
    o += f"Definition parse_command_awaits : list string := {slist(pc_awaits)}.\n"
    return o
