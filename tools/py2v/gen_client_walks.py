"""Gen/ClientWalks.v: the path computations of Client.upload / Client.download (C09).

Pure ast walk over client.py, no execution of repo code, fail closed (Unclassified =>
`translator_ok := false` through __main__, so Extract/ExC09.v and Props/C09.v stop compiling).

Facts emitted (booleans only):

  * upload_relative_fixed -- which of the two KNOWN forms the destination of a child has inside
    `async for path in self.path_io.list(src)` of Client.upload:
        true:   relative = destination / path.relative_to(source)
                (since "fix: Client.upload places a directory's children under the destination")
        false:  if write_into: relative = destination.name / path.relative_to(source)
                else:          relative = path.relative_to(source.parent)
                (the code before that fix, former finding F1: C09_source_obligations is then false and
                 C09_upload_spec does not typecheck -- a revert is detected)
    Any other computation of `relative` is Unclassified.  The model (Model/ClientTree.v upload_gen) takes
    this boolean as its parameter; Extract/ExC09.v and Props/C09.v instantiate it with this fact.
  * upload_final_destination_ok -- `if not write_into: destination = destination / source.name` is the
    only assignment to `destination` after the two constructor calls and precedes the branches;
  * upload_children_use_relative -- in that loop directories are created with make_directory(relative) and
    files are sent with self.upload(path, relative, write_into=True, ...);
  * download_final_destination_ok, download_child_ok -- the mirror image in Client.download:
    `full = destination / name.relative_to(source)` and self.download(name, full, write_into=True, ...).
  * lister_queue_unbounded -- the worklist of the recursive lister inside Client.list (the object that receives both
    `.append(<entry>)` and `.popleft()` / `.pop(..)`, whatever it is called) is created as an UNBOUNDED queue:
    `collections.deque()` / `deque(<iterable>)` / a list display / `list(..)`.  A `maxlen` (keyword or second positional argument,
    other than the literal None) gives false: a full bounded deque silently discards from the other end on append, i.e.
    directories that were queued are never visited; the model's worklist (Model/ClientTree.v list_loop, `dirs`) is a
    list without bound.  Any other constructor is Unclassified.
  * upload_queue_unbounded -- the same for the queue of local directories in Client.upload (`sources`).

Local variables are alpha-renamed to the reference spelling before classification (upload_canonical / download_canonical:
the loop variables, the directory taken from the queue and the computed child destination are identified by what they
are bound to), so renaming a local does not change a fact; parameters (source, destination, write_into) are public API.
"""
import ast
from pathlib import Path

from . import emit
from .gen_dispatch import Unclassified, src

BUG_INTO = "destination.name / path.relative_to(source)"
BUG_PLAIN = "path.relative_to(source.parent)"
FIXED = "destination / path.relative_to(source)"


def method(tree, cls, name):
    for n in tree.body:
        if isinstance(n, ast.ClassDef) and n.name == cls:
            for m in n.body:
                if isinstance(m, (ast.FunctionDef, ast.AsyncFunctionDef)) and m.name == name:
                    return m
    raise Unclassified(f"{cls}.{name} not found")


def walk_own(stmts):
    """statements in source order, descending into compound statements but not into nested defs"""
    for st in stmts:
        yield st
        for field in ("body", "orelse", "finalbody"):
            sub = getattr(st, field, None)
            if isinstance(sub, list) and not isinstance(st, (ast.FunctionDef, ast.AsyncFunctionDef, ast.ClassDef)):
                yield from walk_own(sub)
        for h in getattr(st, "handlers", []) or []:
            yield from walk_own(h.body)


def assigns_to(stmts, name):
    out = []
    for st in walk_own(stmts):
        if isinstance(st, ast.Assign) and any(isinstance(t, ast.Name) and t.id == name for t in st.targets):
            if len(st.targets) != 1:
                raise Unclassified(f"multiple-target assignment to {name}: {src(st)}")
            out.append(st)
        elif isinstance(st, (ast.AugAssign, ast.AnnAssign)) and isinstance(st.target, ast.Name) and st.target.id == name:
            raise Unclassified(f"augmented/annotated assignment to {name}: {src(st)}")
    return out


def final_destination_ok(fn, ctor_src, ctor_dst):
    """source = <ctor_src>(source); destination = <ctor_dst>(destination);
       if not write_into: destination = destination / source.name       -- and nothing else assigns them"""
    a_dst = assigns_to(fn.body, "destination")
    a_src = assigns_to(fn.body, "source")
    if [src(a.value) for a in a_src] != [f"{ctor_src}(source)"]:
        raise Unclassified(f"{fn.name}: assignments to source: {[src(a) for a in a_src]}")
    if [src(a.value) for a in a_dst] != [f"{ctor_dst}(destination)", "destination / source.name"]:
        raise Unclassified(f"{fn.name}: assignments to destination: {[src(a) for a in a_dst]}")
    guard = [st for st in fn.body if isinstance(st, ast.If) and a_dst[1] in st.body]
    if len(guard) != 1 or src(guard[0].test) != "not write_into" or guard[0].orelse or len(guard[0].body) != 1:
        raise Unclassified(f"{fn.name}: `destination / source.name` is not guarded by `if not write_into:` alone")
    # it precedes the first branch on the kind of the source
    idx = fn.body.index(guard[0])
    later_ifs = [i for i, st in enumerate(fn.body) if isinstance(st, ast.If) and i != idx]
    if not later_ifs or min(later_ifs) < idx:
        raise Unclassified(f"{fn.name}: the destination rule does not precede the file/directory branches")
    return True


def calls_in(stmts, attr):
    out = []
    for st in walk_own(stmts):
        for n in ast.walk(st) if not isinstance(st, (ast.If, ast.For, ast.AsyncFor, ast.While, ast.With, ast.AsyncWith, ast.Try)) else []:
            if isinstance(n, ast.Call) and isinstance(n.func, ast.Attribute) and n.func.attr == attr and src(n.func.value) == "self":
                out.append(n)
    return out


def kw(call, name):
    for k in call.keywords:
        if k.arg == name:
            return src(k.value)
    return None


class _Rename(ast.NodeTransformer):
    def __init__(self, mapping):
        self.mapping = mapping

    def visit_Name(self, node):
        if node.id in self.mapping:
            return ast.copy_location(ast.Name(id=self.mapping[node.id], ctx=node.ctx), node)
        return node


def canonical_locals(fn, mapping):
    """alpha-rename LOCAL variables of fn to the names the reference shapes below are written with (the loop variable,
    the queue element, the computed child destination are found by what they are BOUND to, not by their spelling).
    Parameters keep their names (they are the public keyword API).  Fails closed when a renaming could capture."""
    mapping = {a: b for a, b in mapping.items() if a != b}
    if not mapping:
        return fn
    params = {a.arg for a in ast.walk(fn) if isinstance(a, ast.arg)}
    used = {n.id for n in ast.walk(fn) if isinstance(n, ast.Name)}
    for a, b in mapping.items():
        if a in params or b in params or (b in used and b not in mapping):
            raise Unclassified(f"{fn.name}: cannot rename local {a} to {b} without capture")
    if len(set(mapping.values())) != len(mapping):
        raise Unclassified(f"{fn.name}: ambiguous canonical names {mapping}")
    import copy

    return ast.fix_missing_locations(_Rename(mapping).visit(copy.deepcopy(fn)))


def relative_to_locals(loop):
    """plain local names assigned, inside the loop, a value that contains a `.relative_to(..)` call"""
    out = []
    for st in walk_own(loop.body):
        if isinstance(st, ast.Assign) and len(st.targets) == 1 and isinstance(st.targets[0], ast.Name):
            if any(isinstance(n, ast.Call) and isinstance(n.func, ast.Attribute) and n.func.attr == "relative_to"
                   for n in ast.walk(st.value)) and st.targets[0].id not in out:
                out.append(st.targets[0].id)
    return out


def upload_canonical(fn):
    loops = [st for st in walk_own(fn.body) if isinstance(st, ast.AsyncFor) and isinstance(st.iter, ast.Call)
             and src(st.iter.func) == "self.path_io.list" and len(st.iter.args) == 1 and not st.iter.keywords
             and isinstance(st.iter.args[0], ast.Name) and isinstance(st.target, ast.Name)]
    if len(loops) != 1:
        raise Unclassified("upload: expected exactly one `async for <child> in self.path_io.list(<directory>)`")
    rel = relative_to_locals(loops[0])
    if len(rel) != 1:
        raise Unclassified(f"upload: expected one local computed with relative_to() in the child loop, found {rel}")
    return canonical_locals(fn, {loops[0].target.id: "path", loops[0].iter.args[0].id: "src", rel[0]: "relative"})


def download_canonical(fn):
    loops = [st for st in walk_own(fn.body) if isinstance(st, ast.For) and src(st.iter) == "await self.list(source)"
             and isinstance(st.target, ast.Tuple) and len(st.target.elts) == 2
             and all(isinstance(e, ast.Name) for e in st.target.elts)]
    if len(loops) != 1:
        raise Unclassified("download: expected exactly one `for <name>, <info> in await self.list(source)`")
    full = relative_to_locals(loops[0])
    if len(full) != 1:
        raise Unclassified(f"download: expected one local computed with relative_to() in the child loop, found {full}")
    a, b = (e.id for e in loops[0].target.elts)
    return canonical_locals(fn, {a: "name", b: "info", full[0]: "full"})


def upload_facts(fn):
    loops = [st for st in walk_own(fn.body) if isinstance(st, ast.AsyncFor) and src(st.iter) == "self.path_io.list(src)"]
    if len(loops) != 1 or src(loops[0].target) != "path":
        raise Unclassified("upload: expected exactly one `async for path in self.path_io.list(src)`")
    loop = loops[0]
    rel = assigns_to(loop.body, "relative")
    if assigns_to(fn.body, "relative") != rel:
        raise Unclassified("upload: `relative` is assigned outside the child loop")
    values = [src(a.value) for a in rel]
    if values == [FIXED] and rel[0] in loop.body:
        fixed = True
    elif sorted(values) == sorted([BUG_INTO, BUG_PLAIN]):
        ifs = [st for st in loop.body if isinstance(st, ast.If) and rel[0] in st.body + st.orelse]
        if len(ifs) != 1:
            raise Unclassified("upload: the two assignments to `relative` are not the arms of one if")
        st = ifs[0]
        test = src(st.test)
        arms = {True: st.body, False: st.orelse}
        if test == "not write_into":
            arms = {True: st.orelse, False: st.body}
        elif test != "write_into":
            raise Unclassified(f"upload: `relative` selected by {test}")
        if [src(s) for s in arms[True]] != [f"relative = {BUG_INTO}"] or [src(s) for s in arms[False]] != [f"relative = {BUG_PLAIN}"]:
            raise Unclassified(f"upload: arms of the `relative` selection: {src(st)}")
        fixed = False
    else:
        raise Unclassified(f"upload: destination of a child computed as {values}")
    # how `relative` is used
    mk = [c for c in calls_in(loop.body, "make_directory")]
    up = [c for c in calls_in(loop.body, "upload")]
    if [[src(a) for a in c.args] for c in mk] != [["relative"]]:
        raise Unclassified(f"upload: make_directory calls in the child loop: {[src(c) for c in mk]}")
    if len(up) != 1 or [src(a) for a in up[0].args] != ["path", "relative"] or kw(up[0], "write_into") != "True":
        raise Unclassified(f"upload: recursive upload calls in the child loop: {[src(c) for c in up]}")
    return fixed, True


def download_facts(fn):
    loops = [st for st in walk_own(fn.body) if isinstance(st, ast.For) and src(st.iter) == "await self.list(source)"]
    if len(loops) != 1 or src(loops[0].target) != "(name, info)":
        raise Unclassified("download: expected exactly one `for name, info in await self.list(source)`")
    loop = loops[0]
    full = assigns_to(fn.body, "full")
    if [src(a.value) for a in full] != ["destination / name.relative_to(source)"] or full[0] not in loop.body:
        raise Unclassified(f"download: destination of a child: {[src(a) for a in full]}")
    dl = calls_in(loop.body, "download")
    if len(dl) != 1 or [src(a) for a in dl[0].args] != ["name", "full"] or kw(dl[0], "write_into") != "True":
        raise Unclassified(f"download: recursive download calls: {[src(c) for c in dl]}")
    return True


def queue_unbounded(fn):
    """the worklist of Client.list / Client.upload, found by how it is USED (append + popleft/pop), not by its name"""
    def recv(call_attr):
        out = set()
        for n in ast.walk(fn):
            if isinstance(n, ast.Call) and isinstance(n.func, ast.Attribute) and n.func.attr in call_attr:
                out.add(src(n.func.value))
        return out

    queues = recv({"append", "appendleft"}) & recv({"popleft", "pop"})
    if len(queues) != 1:
        raise Unclassified(f"{fn.name}: expected exactly one worklist (append + popleft/pop on the same object), found {sorted(queues)}")
    q = next(iter(queues))
    made = [n for n in ast.walk(fn) if isinstance(n, ast.Assign) and any(src(t) == q for t in n.targets)]
    if not made:
        raise Unclassified(f"{fn.name}: the worklist {q} is never created inside Client.list")
    for n in ast.walk(fn):
        if isinstance(n, (ast.AugAssign, ast.AnnAssign)) and src(n.target) == q:
            raise Unclassified(f"{fn.name}: augmented/annotated assignment to the worklist: {src(n)}")
    unbounded = True
    for a in made:
        v = a.value
        if isinstance(v, ast.List) or (isinstance(v, ast.Call) and src(v.func) == "list"):
            continue  # a list has no bound
        if isinstance(v, ast.Call) and src(v.func) in ("collections.deque", "deque"):
            bound = [k.value for k in v.keywords if k.arg == "maxlen"] + list(v.args[1:2])
            if any(k.arg not in ("maxlen", "iterable") for k in v.keywords) or len(v.args) > 2:
                raise Unclassified(f"{fn.name}: worklist constructor {src(v)}")
            if any(not (isinstance(b, ast.Constant) and b.value is None) for b in bound):
                unbounded = False
            continue
        raise Unclassified(f"{fn.name}: worklist created as {src(v)}")
    return unbounded


def generate(src_dir):
    path = Path(src_dir) / "client.py"
    tree = ast.parse(path.read_text())
    up = upload_canonical(method(tree, "Client", "upload"))
    dl = download_canonical(method(tree, "Client", "download"))
    up_dst = final_destination_ok(up, "pathlib.Path", "pathlib.PurePosixPath")
    fixed, uses = upload_facts(up)
    dl_dst = final_destination_ok(dl, "pathlib.PurePosixPath", "pathlib.Path")
    dl_child = download_facts(dl)
    q_unbounded = queue_unbounded(method(tree, "Client", "list"))
    uq_unbounded = queue_unbounded(up)
    b = emit.boolean
    return emit.HEADER.format(src=str(path)) + f"""
(* Client.upload: the destination of a child inside `async for path in self.path_io.list(src)`
   true  = `destination / path.relative_to(source)`
   false = `destination.name / path.relative_to(source)` | `path.relative_to(source.parent)`  (pre-fix, former F1) *)
Definition upload_relative_fixed : bool := {b(fixed)}.
Definition upload_final_destination_ok : bool := {b(up_dst)}.
Definition upload_children_use_relative : bool := {b(uses)}.
Definition download_final_destination_ok : bool := {b(dl_dst)}.
Definition download_child_ok : bool := {b(dl_child)}.
(* Client.list: the recursive lister's worklist of pending directories is created without a bound (no maxlen) *)
Definition lister_queue_unbounded : bool := {b(q_unbounded)}.
(* Client.upload: likewise the queue of local directories still to be walked *)
Definition upload_queue_unbounded : bool := {b(uq_unbounded)}.
Definition translator_ok : bool := true.
"""
