"""Gen/Logging.v: inventory of every logging call site of server.py, client.py, common.py and
pathio.py with the SOURCE of every argument (a small intra-procedural taint pass over the
enclosing function), plus the structural facts the C20 model is parametric in:

  * the default of Server.parse_command's censor_commands and how parse_command is called,
  * Client.login's construction of the PASS command and its censor_after,
  * the reply texts the handler bound to "pass" (and its decorator) can queue, whether they are
    literals, and where that handler's `rest` flows,
  * `raise` statements built from a password-bearing value in the functions that see one.

Pure ast walk, no execution of repo code.  Fail closed: a logging call (or a use of a logger
object) whose SHAPE cannot be represented raises Unclassified (=> translator_ok := false);
an argument whose ORIGIN is not understood is emitted as SrcUnknown "<expr>", on which the
closed obligation check_log_sites computes false and names the site."""
import ast
from pathlib import Path

from . import emit

FILES = ["server.py", "client.py", "common.py", "pathio.py"]
QUERIES = {"isEnabledFor", "getEffectiveLevel"}
LEVELS = {"debug", "info", "warning", "warn", "error", "critical", "fatal", "exception", "log"}
PRESERVING = {"decode", "encode", "rstrip", "lstrip", "strip", "lower", "upper", "casefold", "title", "swapcase", "format", "expandtabs", "ljust", "rjust", "center", "zfill", "replace", "removeprefix", "removesuffix"}


class Unclassified(Exception):
    pass


def S(s):
    return '"' + s.replace('"', '""') + '"'


def slist(xs):
    return "[" + "; ".join(S(x) for x in xs) + "]"


def src(node):
    return ast.unparse(node)


# ------------------------------------------------------------------ sources
CONST, LEN, STARS, PREFIX, PEER, VERB, REST, RESTG = "Const", "Len", "Stars", "CensoredPrefix", "PeerLine", "CmdVerb", "CmdRest", "CmdRestGuarded"
CCMD, CCMDG, REPLY, ADDR, EXC, PATH = "ClientCommand", "ClientCommandGuarded", "ReplyLine", "Addr", "ExcInfo", "Path"
TRUTHY_CENSOR = "@censor_after_truthy"  # internal: the name `censor_after` on the branch where it is truthy
CENSOR_PARAM = "@censor_after"  # internal: the parameter censor_after, not yet tested


def unknown(e):
    return ("Unknown", e if isinstance(e, str) else src(e))


def is_unknown(v):
    return isinstance(v, tuple) and v[0] == "Unknown"


def join(a, b, where):
    if a == CONST:
        return b
    if b == CONST:
        return a
    if a == b:
        return a
    # a guarded value mixed with its unguarded form is the unguarded form
    for g, u in ((RESTG, REST), (CCMDG, CCMD)):
        if {a, b} == {g, u}:
            return u
    if is_unknown(a):
        return a
    if is_unknown(b):
        return b
    # anything mixed with a password-bearing source stays password-bearing
    for bad in (PEER, REST, CCMD):
        if bad in (a, b):
            return bad
    return unknown(where)


def coq_src(v):
    if is_unknown(v):
        return "SrcUnknown " + S(v[1][:200])
    if isinstance(v, tuple):  # unconsumed partition result: the whole base
        return coq_src(v[1])
    if v in (TRUTHY_CENSOR, CENSOR_PARAM):
        return "SrcConst"  # an int index / None
    return "Src" + v


# ------------------------------------------------------------------ per-module analysis
class Module:
    def __init__(self, path):
        self.path = path
        self.file = path.name
        self.tree = ast.parse(path.read_text())
        self.parent = {}
        for n in ast.walk(self.tree):
            for c in ast.iter_child_nodes(n):
                self.parent[c] = n
        self.loggers = set()
        self.logging_mod = set()
        for st in self.tree.body:
            if isinstance(st, ast.Import):
                for a in st.names:
                    if a.name == "logging":
                        self.logging_mod.add(a.asname or "logging")
                    elif a.name.startswith("logging."):
                        raise Unclassified(f"{self.file}: import {a.name}")
            elif isinstance(st, ast.ImportFrom) and st.module and st.module.split(".")[0] == "logging":
                raise Unclassified(f"{self.file}: from logging import ... (line {st.lineno})")
            elif isinstance(st, ast.Assign) and self.is_getlogger(st.value):
                for t in st.targets:
                    if not isinstance(t, ast.Name):
                        raise Unclassified(f"{self.file}: logger bound to {src(t)}")
                    self.loggers.add(t.id)
        self.split_conditional_logs()
        self.parent = {}
        for n in ast.walk(self.tree):
            for c in ast.iter_child_nodes(n):
                self.parent[c] = n
        self.sites = {}  # id(call) -> dict
        self.order = []
        self.secret_classes = secret_repr_classes(self.tree)
        self.secret_args = []  # (function, expression): a logging argument that is an object of such a class
        self.check_logger_uses()

    def split_conditional_logs(self):
        """equivalent statement shapes normalised to the one the reference inventory uses (a logging call per branch):
             logger.L(.., A if T else B, ..)                       ==>  if T: logger.L(.., A, ..) else: logger.L(.., B, ..)
             v = A if T else B ; logger.L(.., v, ..)  (v read once)  ==>  the same
        Side conditions: the call is a whole statement, the other arguments are names / constants (evaluating them after
        T instead of before is unobservable), v is a plain local read nowhere else in the function.  Same order of
        effects: T, then exactly one of A / B, then the record."""

        def pure(a):
            return isinstance(a, (ast.Name, ast.Constant))

        def split(call, idx, ifexp):
            def mk(val):
                c = ast.Call(func=call.func, args=list(call.args), keywords=call.keywords)
                c.args[idx] = val
                return ast.copy_location(ast.Expr(value=ast.copy_location(c, call)), call)

            return ast.copy_location(ast.If(test=ifexp.test, body=[mk(ifexp.body)], orelse=[mk(ifexp.orelse)]), call)

        def log_stmt(st):
            return st.value if isinstance(st, ast.Expr) and self.is_log_call(st.value) and not st.value.keywords else None

        for fn in [n for n in ast.walk(self.tree) if isinstance(n, (ast.FunctionDef, ast.AsyncFunctionDef))]:
            for holder in ast.walk(fn):
                for field in ("body", "orelse", "finalbody"):
                    stmts = getattr(holder, field, None)
                    if not isinstance(stmts, list):
                        continue
                    i = 0
                    while i < len(stmts):
                        call = log_stmt(stmts[i]) if isinstance(stmts[i], ast.stmt) else None
                        if call is not None:
                            conds = [k for k, a in enumerate(call.args) if isinstance(a, ast.IfExp)]
                            if len(conds) == 1 and all(pure(a) for k, a in enumerate(call.args) if k != conds[0]):
                                stmts[i] = split(call, conds[0], call.args[conds[0]])
                            elif i > 0 and not conds and all(pure(a) for a in call.args):
                                prev = stmts[i - 1]
                                if (
                                    isinstance(prev, ast.Assign) and len(prev.targets) == 1 and isinstance(prev.targets[0], ast.Name)
                                    and isinstance(prev.value, ast.IfExp)
                                ):
                                    v = prev.targets[0].id
                                    uses = [k for k, a in enumerate(call.args) if isinstance(a, ast.Name) and a.id == v]
                                    loads = [n for n in ast.walk(fn) if isinstance(n, ast.Name) and n.id == v and isinstance(n.ctx, ast.Load)]
                                    stores = [n for n in ast.walk(fn) if isinstance(n, ast.Name) and n.id == v and isinstance(n.ctx, ast.Store)]
                                    if len(uses) == 1 and len(loads) == 1 and len(stores) == 1:
                                        stmts[i - 1 : i + 1] = [split(call, uses[0], prev.value)]
                                        i -= 1
                        i += 1
        ast.fix_missing_locations(self.tree)

    def is_getlogger(self, v):
        return (
            isinstance(v, ast.Call)
            and isinstance(v.func, ast.Attribute)
            and v.func.attr == "getLogger"
            and isinstance(v.func.value, ast.Name)
            and v.func.value.id in self.logging_mod
        )

    def is_log_call(self, n):
        return (
            isinstance(n, ast.Call)
            and isinstance(n.func, ast.Attribute)
            and isinstance(n.func.value, ast.Name)
            and n.func.value.id in (self.loggers | self.logging_mod)
            and n.func.attr in LEVELS
        )

    def all_log_calls(self):
        return [n for n in ast.walk(self.tree) if self.is_log_call(n)]

    def check_logger_uses(self):
        """every mention of a logger object / the logging module is either its definition or the callee of a
        direct `<logger>.<level>(...)` call: no aliasing, no getattr, no logger passed around"""
        for n in ast.walk(self.tree):
            if isinstance(n, ast.Name) and n.id in (self.loggers | self.logging_mod):
                p = self.parent.get(n)
                if isinstance(n.ctx, ast.Store) and n.id in self.loggers and isinstance(p, ast.Assign) and self.is_getlogger(p.value) and p in self.tree.body:
                    continue
                if isinstance(p, ast.Attribute) and p.value is n:
                    pp = self.parent.get(p)
                    if isinstance(pp, ast.Call) and pp.func is p:
                        if p.attr in LEVELS:
                            continue
                        if n.id in self.loggers and p.attr in QUERIES:  # pure queries: no record is emitted
                            continue
                        if n.id in self.logging_mod and p.attr == "getLogger" and isinstance(self.parent.get(pp), ast.Assign) and self.parent.get(pp) in self.tree.body:
                            continue
                raise Unclassified(f"{self.file}:{n.lineno}: use of {n.id} that is not a direct logging call: {src(self.parent.get(n) or n)[:80]}")
            if isinstance(n, ast.Attribute) and n.attr == "getLogger":
                pp = self.parent.get(n)
                if not (isinstance(pp, ast.Call) and isinstance(self.parent.get(pp), ast.Assign) and self.parent.get(pp) in self.tree.body):
                    raise Unclassified(f"{self.file}:{n.lineno}: getLogger outside a module-level assignment")

    # ---- the walk
    def run(self):
        for st in self.tree.body:
            if isinstance(st, ast.ClassDef):
                self.walk_class(st, st.name)
            elif isinstance(st, (ast.FunctionDef, ast.AsyncFunctionDef)):
                self.walk_function(st, st.name, {}, None)
        found = self.all_log_calls()
        missing = [n for n in found if id(n) not in self.sites]
        if missing:
            raise Unclassified(f"{self.file}:{missing[0].lineno}: logging call not reached by the statement walk: {src(missing[0])[:80]}")
        return [self.sites[i] for i in self.order]

    def walk_class(self, cls, qual, env=None):
        for st in cls.body:
            if isinstance(st, (ast.FunctionDef, ast.AsyncFunctionDef)):
                self.walk_function(st, qual + "." + st.name, env or {}, cls.name)
            elif isinstance(st, ast.ClassDef):
                self.walk_class(st, qual + "." + st.name, env)
            elif any(self.is_log_call(m) for m in ast.walk(st)):
                raise Unclassified(f"{self.file}:{st.lineno}: logging call in a class body")

    def param_seeds(self, fn, qual):
        names = [a.arg for a in fn.args.posonlyargs + fn.args.args + fn.args.kwonlyargs]
        if fn.args.vararg:
            names.append(fn.args.vararg.arg)
        if fn.args.kwarg:
            names.append(fn.args.kwarg.arg)
        env = {n: unknown(f"parameter {n} of {qual}") for n in names}
        pos = [a.arg for a in fn.args.posonlyargs + fn.args.args]
        # parameters are identified by position / by the keyword callers use, not by the spelling of a positional name
        if self.file == "server.py" and qual == "Server.write_line" and len(pos) == 3:  # write_line(self, stream, <line>)
            env[pos[2]] = self.write_line_seed()
        if self.file == "client.py" and qual.endswith(".command") and len(pos) >= 2 and "censor_after" in env:  # command(self, <command>, ..., censor_after=)
            env[pos[1]] = CCMD
            env["censor_after"] = CENSOR_PARAM
        return env

    def write_line_seed(self):
        """`line` of Server.write_line is a reply line iff write_line is only reached through
        write_response <- response_writer <- the reply queue"""

        def refs(attr):
            out = []
            for n in ast.walk(self.tree):
                if isinstance(n, ast.Attribute) and n.attr == attr:
                    f = n
                    while f in self.parent and not isinstance(f, (ast.FunctionDef, ast.AsyncFunctionDef)):
                        f = self.parent[f]
                    out.append(getattr(f, "name", "?"))
            return out

        if set(refs("write_line")) - {"write_response"}:
            return unknown("write_line referenced outside write_response: " + ",".join(sorted(set(refs("write_line")))))
        if set(refs("write_response")) - {"response_writer"}:
            return unknown("write_response referenced outside response_writer: " + ",".join(sorted(set(refs("write_response")))))
        if set(refs("response_writer")) - {"dispatcher"}:
            return unknown("response_writer referenced outside dispatcher")
        return REPLY

    def secret_objects(self, fn):
        """expression text -> class, for every Name / attribute chain E of fn that is read as `E.<field>` with <field> a
        field of a class whose __repr__/__str__ prints the password (identified by use, not by spelling)"""
        out = {}
        for n in ast.walk(fn):
            if isinstance(n, ast.Attribute) and isinstance(n.ctx, ast.Load) and isinstance(n.value, (ast.Name, ast.Attribute)):
                if isinstance(n.value, ast.Name) and n.value.id in ("self", "cls"):
                    continue
                for cname, fields in self.secret_classes.items():
                    if n.attr in fields:
                        out[src(n.value)] = cname
        return out

    def walk_function(self, fn, qual, outer_env, cls):
        env = dict(outer_env)
        env.update(self.param_seeds(fn, qual))
        self.secret_objs = getattr(self, "secret_objs", []) + [self.secret_objects(fn)]
        try:
            self.walk_function_body(fn, qual, env)
        finally:
            self.secret_objs = self.secret_objs[:-1]

    def walk_function_body(self, fn, qual, env):
        self.fn_stack = getattr(self, "fn_stack", []) + [(fn, qual)]
        try:
            self.walk_block(fn.body, env)
        finally:
            self.fn_stack = self.fn_stack[:-1]

    def cur(self):
        return self.fn_stack[-1]

    def walk_block(self, stmts, env):
        for st in stmts:
            env = self.walk_stmt(st, env)
        return env

    def merge(self, a, b, where):
        out = {}
        for k in set(a) | set(b):
            if k in a and k in b:
                out[k] = a[k] if a[k] == b[k] else join(a[k], b[k], f"merge of {k} after {where}")
            else:
                out[k] = a.get(k, b.get(k))
        return out

    def walk_stmt(self, st, env):
        fn, qual = self.cur()
        if isinstance(st, (ast.FunctionDef, ast.AsyncFunctionDef)):
            for d in st.decorator_list:
                self.scan(d, env)
            self.walk_function(st, qual + "." + st.name, env, None)
            return env
        if isinstance(st, ast.ClassDef):
            self.walk_class(st, qual + "." + st.name, env)
            return env
        if isinstance(st, ast.Assign):
            self.scan(st.value, env)
            v = self.ev(st.value, env)
            env = dict(env)
            for t in st.targets:
                self.bind(t, st.value, v, env)
            return env
        if isinstance(st, ast.AugAssign):
            self.scan(st.value, env)
            if isinstance(st.target, ast.Name):
                env = dict(env)
                env[st.target.id] = join(env.get(st.target.id, unknown(st.target.id)), self.ev(st.value, env), src(st))
            return env
        if isinstance(st, ast.AnnAssign):
            if st.value is not None:
                self.scan(st.value, env)
                env = dict(env)
                self.bind(st.target, st.value, self.ev(st.value, env), env)
            return env
        if isinstance(st, ast.If):
            self.scan(st.test, env)
            et, ef = self.refine(st.test, env)
            e1 = self.walk_block(st.body, et)
            e2 = self.walk_block(st.orelse, ef)
            m = self.merge(e1, e2, f"if {src(st.test)[:40]}")
            # the refinement does not survive the join
            for k, v in list(m.items()):
                if v == TRUTHY_CENSOR:
                    m[k] = CENSOR_PARAM
            return m
        if isinstance(st, (ast.For, ast.AsyncFor)):
            self.scan(st.iter, env)
            env = dict(env)
            it = st.iter
            if isinstance(it, ast.Call) and isinstance(it.func, ast.Attribute) and it.func.attr == "list" and src(it.func.value).endswith("path_io"):
                v = PATH
            else:
                v = self.ev(it, env)
                if v == CONST:
                    v = unknown(f"element of {src(it)[:60]}")
            self.bind(st.target, None, v, env)
            e1 = self.walk_block(st.body, env)
            e1 = self.walk_block(st.body, self.merge(env, e1, "loop"))  # second pass: loop-carried flows
            e2 = self.walk_block(st.orelse, self.merge(env, e1, "loop"))
            return self.merge(env, e2, "loop")
        if isinstance(st, ast.While):
            self.scan(st.test, env)
            e1 = self.walk_block(st.body, dict(env))
            e1 = self.walk_block(st.body, self.merge(env, e1, "loop"))
            e2 = self.walk_block(st.orelse, self.merge(env, e1, "loop"))
            return self.merge(env, e2, "loop")
        if isinstance(st, (ast.With, ast.AsyncWith)):
            env = dict(env)
            for it in st.items:
                self.scan(it.context_expr, env)
                if it.optional_vars is not None:
                    self.bind(it.optional_vars, None, unknown(f"context {src(it.context_expr)[:60]}"), env)
            return self.walk_block(st.body, env)
        if isinstance(st, ast.Try) or st.__class__.__name__ == "TryStar":
            e = self.walk_block(st.body, dict(env))
            e = self.merge(env, e, "try")
            for h in st.handlers:
                eh = dict(e)
                if h.type is not None:
                    self.scan(h.type, eh)
                if h.name:
                    eh[h.name] = unknown(f"exception object {h.name}")
                e = self.merge(e, self.walk_block(h.body, eh), "except")
            e = self.merge(e, self.walk_block(st.orelse, dict(e)), "try-else")
            return self.walk_block(st.finalbody, e)
        if isinstance(st, (ast.Expr, ast.Return, ast.Raise, ast.Assert, ast.Delete, ast.Pass, ast.Break, ast.Continue, ast.Global, ast.Nonlocal, ast.Import, ast.ImportFrom)):
            self.scan(st, env)
            return env
        raise Unclassified(f"{self.file}:{st.lineno}: statement {type(st).__name__} in {qual}")

    # ---- expressions
    def scan(self, node, env):
        """record every logging call inside `node` (not descending into nested scopes)"""
        stack = [node]
        while stack:
            n = stack.pop()
            if isinstance(n, (ast.Lambda, ast.ListComp, ast.SetComp, ast.DictComp, ast.GeneratorExp)):
                if any(self.is_log_call(m) for m in ast.walk(n)):
                    raise Unclassified(f"{self.file}:{n.lineno}: logging call inside a lambda/comprehension")
                continue
            if self.is_log_call(n):
                self.record(n, env)
            stack.extend(ast.iter_child_nodes(n))

    def record(self, call, env):
        fn, qual = self.cur()
        level = call.func.attr
        args = list(call.args)
        for a in args:
            if isinstance(a, ast.Starred):
                raise Unclassified(f"{self.file}:{call.lineno}: *args in logging call")
        if level == "log":
            if not args or not isinstance(args[0], (ast.Attribute, ast.Constant, ast.Name)):
                raise Unclassified(f"{self.file}:{call.lineno}: logger.log with a computed level")
            level = "log:" + src(args[0])
            args = args[1:]
        if not args:
            raise Unclassified(f"{self.file}:{call.lineno}: logging call without a message")
        srcs = [self.ev(a, env) for a in args]
        for a in args:
            for m in ast.walk(a):
                if isinstance(m, (ast.Name, ast.Attribute)) and src(m) in self.secret_objs[-1]:
                    par = self.parent.get(m)
                    if not (isinstance(par, ast.Attribute) and par.value is m):  # the object itself, not one of its fields
                        self.secret_args.append((f"{self.file}:{qual}", self.secret_objs[-1][src(m)]))
        for k in call.keywords:
            if k.arg == "exc_info":
                if not (isinstance(k.value, ast.Constant) and k.value.value in (False, None)):
                    srcs.append(EXC)
            elif k.arg == "stack_info":
                if not isinstance(k.value, ast.Constant):
                    raise Unclassified(f"{self.file}:{call.lineno}: computed stack_info")
            elif k.arg == "stacklevel":
                pass
            elif k.arg == "extra":
                srcs.append(self.ev(k.value, env))
            else:
                raise Unclassified(f"{self.file}:{call.lineno}: logging keyword {k.arg}")
        if level == "exception":
            srcs.append(EXC)
        fmt = args[0].value if isinstance(args[0], ast.Constant) and isinstance(args[0].value, str) else None
        site = {"file": self.file, "func": qual, "level": level, "fmt": fmt, "srcs": srcs, "line": call.lineno, "text": src(call)}
        if id(call) in self.sites:  # visited again (loop second pass): keep the less safe classification
            old = self.sites[id(call)]
            site["srcs"] = [join(a, b, src(call)) for a, b in zip(old["srcs"], srcs)]
            self.sites[id(call)] = site
        else:
            self.sites[id(call)] = site
            self.order.append(id(call))

    def ev(self, e, env):
        if isinstance(e, ast.Constant):
            return CONST
        if isinstance(e, (ast.Name, ast.Attribute)) and getattr(self, "secret_objs", None) and src(e) in self.secret_objs[-1]:
            # an object whose repr()/str() embeds the password it was configured with: a tainted source
            return unknown(f"object of class {self.secret_objs[-1][src(e)]} (its __repr__/__str__ prints the password): {src(e)}")
        if isinstance(e, ast.Name):
            return env.get(e.id, unknown(e.id))
        if isinstance(e, ast.JoinedStr):
            v = CONST
            for p in e.values:
                v = join(v, self.ev(p, env), e)
            return v
        if isinstance(e, ast.FormattedValue):
            return self.ev(e.value, env)
        if isinstance(e, ast.Await):
            return self.ev(e.value, env)
        if isinstance(e, ast.Starred):
            return self.ev(e.value, env)
        if isinstance(e, (ast.Tuple, ast.List, ast.Set)):
            v = CONST
            for p in e.elts:
                v = join(v, self.ev(p, env), e)
            return v
        if isinstance(e, ast.IfExp):
            return join(self.ev(e.body, env), self.ev(e.orelse, env), e)
        if isinstance(e, ast.BoolOp):
            v = CONST
            for p in e.values:
                v = join(v, self.ev(p, env), e)
            return v
        if isinstance(e, ast.BinOp):
            l, r = self.ev(e.left, env), self.ev(e.right, env)
            if isinstance(e.op, ast.Mult):
                if isinstance(e.left, ast.Constant) and isinstance(e.left.value, str) and r == LEN:
                    return STARS
                if isinstance(e.right, ast.Constant) and isinstance(e.right.value, str) and l == LEN:
                    return STARS
            if l == LEN and r == LEN or {l, r} == {LEN, CONST}:
                return LEN
            return join(l, r, e)
        if isinstance(e, ast.Subscript):
            base = self.ev(e.value, env)
            sl = e.slice
            if (
                base == CCMD
                and isinstance(sl, ast.Slice)
                and sl.lower is None
                and sl.step is None
                and isinstance(sl.upper, ast.Name)
                and env.get(sl.upper.id) == TRUTHY_CENSOR
            ):
                return PREFIX
            if isinstance(base, tuple) and not is_unknown(base):
                return base[1]
            return base
        if isinstance(e, ast.Call):
            f = e.func
            if isinstance(f, ast.Name):
                if f.id == "len" and len(e.args) == 1 and not e.keywords:
                    return LEN
                if f.id in ("str", "repr", "ascii", "bytes") and len(e.args) >= 1:
                    return self.ev(e.args[0], env)
                return unknown(e)
            if isinstance(f, ast.Attribute):
                if f.attr == "readline":
                    if self.file == "server.py":
                        return PEER
                    if self.file == "client.py":
                        return REPLY
                    return unknown(e)
                if f.attr == "getsockname":
                    return ADDR
                if f.attr == "get_extra_info" and e.args and isinstance(e.args[0], ast.Constant) and e.args[0].value in ("peername", "sockname"):
                    return ADDR
                if f.attr == "partition":
                    return ("Partition", self.ev(f.value, env))
                if f.attr in PRESERVING:
                    v = self.ev(f.value, env)
                    if isinstance(v, tuple) and not is_unknown(v):
                        v = v[1]
                    if f.attr in ("format", "replace", "ljust", "rjust", "center"):
                        for a in e.args:
                            v = join(v, self.ev(a, env), e)
                        for k in e.keywords:
                            v = join(v, self.ev(k.value, env), e)
                    return v
                if f.attr == "join":
                    v = self.ev(f.value, env)
                    for a in e.args:
                        v = join(v, self.ev(a, env), e)
                    return v
            return unknown(e)
        return unknown(e)

    def bind(self, target, value_node, v, env):
        if isinstance(target, ast.Name):
            if isinstance(v, tuple) and not is_unknown(v):
                v = v[1]
            env[target.id] = v
            return
        if isinstance(target, ast.Starred):
            self.bind(target.value, None, v, env)
            return
        if isinstance(target, (ast.Tuple, ast.List)):
            elts = target.elts
            if isinstance(v, tuple) and v[0] == "Partition":
                base = v[1]
                if len(elts) != 3 or any(isinstance(x, ast.Starred) for x in elts):
                    for x in elts:
                        self.bind(x, None, base, env)
                    return
                parts = (VERB, CONST, REST) if base == PEER else (base, CONST, base)
                for x, p in zip(elts, parts):
                    self.bind(x, None, p, env)
                return
            if isinstance(value_node, (ast.Tuple, ast.List)) and len(value_node.elts) == len(elts) and not any(isinstance(x, ast.Starred) for x in list(elts) + list(value_node.elts)):
                for x, vn in zip(elts, value_node.elts):
                    self.bind(x, vn, self.ev(vn, env), env)
                return
            for x in elts:
                self.bind(x, None, v, env)
            return
        # attribute / subscript targets: the heap is not tracked; reading them back yields SrcUnknown
        return

    def refine(self, test, env):
        """environments on the true / false branch of an `if`"""
        fn, qual = self.cur()
        et, ef = dict(env), dict(env)
        neg = False
        t = test
        while isinstance(t, ast.UnaryOp) and isinstance(t.op, ast.Not):
            neg = not neg
            t = t.operand
        done = False
        if isinstance(t, ast.Compare) and len(t.ops) == 1 and isinstance(t.ops[0], (ast.In, ast.NotIn)):
            l, c = t.left, t.comparators[0]
            if (
                isinstance(l, ast.Call)
                and isinstance(l.func, ast.Attribute)
                and l.func.attr == "lower"
                and not l.args
                and isinstance(l.func.value, ast.Name)
                and env.get(l.func.value.id) == VERB
            ):
                cens = self.censor_set(c, fn)
                if cens is not None:
                    self.censor_guards.append({"func": qual, "set": cens, "line": test.lineno})
                    if isinstance(t.ops[0], ast.NotIn):
                        neg = not neg
                    safe = et if neg else ef
                    for k, v in list(safe.items()):
                        if v == REST:
                            safe[k] = RESTG
                    done = True
        if not done and isinstance(t, ast.Name) and env.get(t.id) == CENSOR_PARAM:
            truthy, falsy = (ef, et) if neg else (et, ef)
            truthy[t.id] = TRUTHY_CENSOR
            for k, v in list(falsy.items()):
                if v == CCMD:
                    falsy[k] = CCMDG
        return et, ef

    censor_guards = None

    def censor_set(self, node, fn):
        """the constant collection a verb is tested against: a literal, or a parameter's literal default"""
        try:
            v = ast.literal_eval(node)
            if isinstance(v, (tuple, list, set, frozenset)) and all(isinstance(x, str) for x in v):
                return sorted(v)
        except Exception:
            pass
        if isinstance(node, ast.Name):
            pos = fn.args.posonlyargs + fn.args.args
            defaults = [None] * (len(pos) - len(fn.args.defaults)) + list(fn.args.defaults)
            for a, d in list(zip(pos, defaults)) + list(zip(fn.args.kwonlyargs, fn.args.kw_defaults)):
                if a.arg == node.id and d is not None:
                    # the parameter must not be rebound in the function
                    for n in ast.walk(fn):
                        if isinstance(n, ast.Name) and n.id == node.id and isinstance(n.ctx, ast.Store):
                            return None
                    try:
                        v = ast.literal_eval(d)
                    except Exception:
                        return None
                    if isinstance(v, (tuple, list, set, frozenset)) and all(isinstance(x, str) for x in v):
                        return list(v)
        return None


# ------------------------------------------------------------------ structural facts around PASS
def methods_of(cls):
    return {n.name: n for n in cls.body if isinstance(n, (ast.FunctionDef, ast.AsyncFunctionDef))}


def names_in(node):
    return [n.id for n in ast.walk(node) if isinstance(n, ast.Name)]


def rest_sinks(fn, name, parent):
    """where the Name `name` is read inside fn (own body incl. nested defs): callee text when it is a call argument"""
    out = []
    for n in ast.walk(fn):
        if isinstance(n, ast.Name) and n.id == name and isinstance(n.ctx, ast.Load):
            p = parent.get(n)
            if isinstance(p, ast.Call) and (n in p.args):
                out.append(src(p.func))
            elif isinstance(p, ast.keyword):
                out.append("kw:" + src(parent[p].func))
            else:
                out.append("expr:" + src(p)[:80])
    seen = []
    for x in out:
        if x not in seen:
            seen.append(x)
    return seen


def const_pairs(fn, a_name, b_name):
    """constant (a, b) pairs bound by `a, b = "x", "y"`; ok=False when either name is bound any other way"""
    pairs, ok = [], True
    for n in ast.walk(fn):
        if isinstance(n, ast.Assign):
            for t in n.targets:
                if isinstance(t, ast.Tuple) and [getattr(e, "id", None) for e in t.elts] == [a_name, b_name]:
                    v = n.value
                    if isinstance(v, ast.Tuple) and len(v.elts) == 2 and all(isinstance(e, ast.Constant) and isinstance(e.value, str) for e in v.elts):
                        pairs.append((v.elts[0].value, v.elts[1].value))
                    else:
                        ok = False
                else:
                    for m in ast.walk(t):
                        if isinstance(m, ast.Name) and m.id in (a_name, b_name):
                            ok = False
        elif isinstance(n, (ast.AugAssign, ast.AnnAssign, ast.NamedExpr)):
            tgt = n.target
            if isinstance(tgt, ast.Name) and tgt.id in (a_name, b_name):
                ok = False
    return pairs, ok


def server_pass_facts(mod):
    tree, parent = mod.tree, mod.parent
    classes = {n.name: n for n in tree.body if isinstance(n, ast.ClassDef)}
    server = methods_of(classes["Server"])
    # verb -> handler
    handler_name = None
    for n in ast.walk(server["__init__"]):
        if isinstance(n, ast.Assign) and src(n.targets[0]) == "self.commands_mapping" and isinstance(n.value, ast.Dict):
            for k, v in zip(n.value.keys, n.value.values):
                if isinstance(k, ast.Constant) and k.value == "pass":
                    if not (isinstance(v, ast.Attribute) and src(v.value) == "self"):
                        raise Unclassified("commands_mapping['pass'] is not self.<method>")
                    handler_name = v.attr
    if handler_name is None or handler_name not in server:
        raise Unclassified("no handler bound to verb 'pass' in commands_mapping")
    # every key of the mapping that is bound to that same handler (an alias entry "xpass": self.pass_ would be one),
    # and whether the mapping is a literal {"<verb>": self.<method>, ...} that nothing else in __init__ touches
    pass_verbs, mapping_literal = [], True
    n_mentions = sum(1 for n in ast.walk(server["__init__"]) if isinstance(n, ast.Attribute) and n.attr == "commands_mapping")
    for n in ast.walk(server["__init__"]):
        if isinstance(n, ast.Assign) and src(n.targets[0]) == "self.commands_mapping" and isinstance(n.value, ast.Dict):
            for k, v in zip(n.value.keys, n.value.values):
                if not (isinstance(k, ast.Constant) and isinstance(k.value, str) and isinstance(v, ast.Attribute) and src(v.value) == "self"):
                    mapping_literal = False
                elif v.attr == handler_name:
                    pass_verbs.append(k.value)
    if n_mentions != 1:
        mapping_literal = False
    h = server[handler_name]
    params = [a.arg for a in h.args.args]
    if len(params) != 3:
        raise Unclassified(f"{handler_name}: unexpected signature")
    rest_name = params[2]
    # replies queued by the body: connection.response(code, info) with constant pairs
    replies, lit = [], True
    for n in ast.walk(h):
        if isinstance(n, ast.Call) and src(n.func) == f"{params[1]}.response":
            a = n.args
            if len(a) == 2 and all(isinstance(x, ast.Constant) and isinstance(x.value, str) for x in a):
                replies.append((a[0].value, a[1].value))
            elif len(a) == 2 and all(isinstance(x, ast.Name) for x in a):
                pairs, ok = const_pairs(h, a[0].id, a[1].id)
                replies.extend(pairs)
                lit = lit and ok and bool(pairs)
            else:
                lit = False
    if any(mod.is_log_call(n) for n in ast.walk(h)):
        lit = False  # a logging call inside the handler is classified with the sites; flag it here too
    sinks = rest_sinks(h, rest_name, parent)
    # decorators of the handler: only ConnectionConditions(<class constants>) is understood
    guard_replies, deco_sinks = [], []
    cc = classes.get("ConnectionConditions")
    for d in h.decorator_list:
        if not (isinstance(d, ast.Call) and isinstance(d.func, ast.Name) and d.func.id == "ConnectionConditions" and cc is not None):
            raise Unclassified(f"decorator {src(d)} on {handler_name}")
        consts = {}
        for st in cc.body:
            if isinstance(st, ast.Assign) and isinstance(st.targets[0], ast.Name):
                try:
                    consts[st.targets[0].id] = ast.literal_eval(st.value)
                except Exception:
                    pass
        cm = methods_of(cc)
        init = cm["__init__"]
        kwd = {a.arg: ast.literal_eval(dv) for a, dv in zip(init.args.kwonlyargs, init.args.kw_defaults) if dv is not None}
        fail_code, fail_info = kwd.get("fail_code"), kwd.get("fail_info")
        for k in d.keywords:
            if k.arg == "fail_code":
                fail_code = ast.literal_eval(k.value)
            elif k.arg == "fail_info":
                fail_info = ast.literal_eval(k.value)
            elif k.arg != "wait":
                raise Unclassified(f"ConnectionConditions keyword {k.arg}")
        call = cm["__call__"]
        wrappers = [n for n in call.body if isinstance(n, (ast.FunctionDef, ast.AsyncFunctionDef))]
        if len(wrappers) != 1:
            raise Unclassified("ConnectionConditions.__call__: expected one wrapper")
        w = wrappers[0]
        wparams = [a.arg for a in w.args.args]
        if len(wparams) < 3:
            raise Unclassified("ConnectionConditions wrapper signature")
        wrapped = [a.arg for a in call.args.args][1:2]  # __call__(self, <wrapped function>)
        deco_sinks += ["@wrapped" if [x] == wrapped else x for x in rest_sinks(w, wparams[2], parent)]
        if any(mod.is_log_call(n) for n in ast.walk(w)):
            deco_sinks.append("logging-call-in-wrapper")
        # info = f"bad sequence of commands ({message})" when fail_info is None
        resp = [n for n in ast.walk(w) if isinstance(n, ast.Call) and src(n.func) == f"{wparams[1]}.response"]
        if len(resp) != 1 or len(resp[0].args) != 2 or src(resp[0].args[0]) != "self.fail_code" or not isinstance(resp[0].args[1], ast.Name):
            raise Unclassified("ConnectionConditions wrapper: reply shape")
        info_var = resp[0].args[1].id  # the local handed to connection.response as the reply text
        message_vars = {  # the second loop variable of `for <future>, <message> in <dict>.items()`
            n.target.elts[1].id for n in ast.walk(w)
            if isinstance(n, ast.For) and isinstance(n.target, ast.Tuple) and len(n.target.elts) == 2 and isinstance(n.target.elts[1], ast.Name)
        }
        tmpl = None
        for n in ast.walk(w):
            if isinstance(n, ast.Assign) and isinstance(n.targets[0], ast.Name) and n.targets[0].id == info_var and isinstance(n.value, ast.JoinedStr):
                tmpl = n.value
        for a in d.args:
            if not (isinstance(a, ast.Attribute) and src(a.value) == "ConnectionConditions" and a.attr in consts):
                raise Unclassified(f"ConnectionConditions argument {src(a)}")
            field, message = consts[a.attr]
            if fail_info is not None:
                info = fail_info
            else:
                if tmpl is None:
                    raise Unclassified("ConnectionConditions wrapper: info template not found")
                info = ""
                for p in tmpl.values:
                    if isinstance(p, ast.Constant):
                        info += p.value
                    elif isinstance(p, ast.FormattedValue) and isinstance(p.value, ast.Name) and p.value.id in message_vars and p.conversion == -1 and p.format_spec is None:
                        info += message
                    else:
                        raise Unclassified(f"ConnectionConditions info template part {src(p)}")
            guard_replies.append((fail_code, info))
    # dispatcher: unknown-verb reply and how parse_command is called
    disp = server["dispatcher"]
    unknown_names = None
    for n in ast.walk(disp):
        if isinstance(n, ast.Call) and isinstance(n.func, ast.Attribute) and n.func.attr == "response" and n.args and isinstance(n.args[0], ast.Constant) and n.args[0].value == "502":
            a = n.args[1]
            if isinstance(a, ast.Name):
                vals = [m.value for m in ast.walk(disp) if isinstance(m, ast.Assign) and isinstance(m.targets[0], ast.Name) and m.targets[0].id == a.id]
                if len(vals) != 1:
                    raise Unclassified("dispatcher: 502 message bound more than once")
                a = vals[0]
            unknown_names = sorted(set(names_in(a)))
    if unknown_names is None:
        raise Unclassified("dispatcher: 502 reply not found")
    # `cmd, rest = result` is the only binding of those names in the dispatcher
    result_vars = task_result_vars(disp)
    unpack = [n for n in ast.walk(disp) if isinstance(n, ast.Assign) and isinstance(n.targets[0], ast.Tuple) and isinstance(n.value, ast.Name) and n.value.id in result_vars]
    if len(unpack) != 1 or len(unpack[0].targets[0].elts) != 2 or not all(isinstance(e, ast.Name) for e in unpack[0].targets[0].elts):
        raise Unclassified("dispatcher: `<verb>, <rest> = <local bound to task.result()>` not found")
    verb_var, rest_var = [e.id for e in unpack[0].targets[0].elts]
    roles = {verb_var: "@verb", rest_var: "@rest"}
    # the handler of a line is looked up by the verb parse_command returned and by nothing else: the dispatcher reads
    # `self.commands_mapping` exactly once, as `<handler> = self.commands_mapping.get(<verb>)`, and neither the verb,
    # the argument nor the handler local is bound anywhere else in the dispatcher.  The locals are identified by what
    # they are bound to (their ROLE), never by spelling.
    reads = [n for n in ast.walk(disp) if isinstance(n, ast.Attribute) and n.attr == "commands_mapping"]
    lookup_ok, lookup_why, handler_var = True, "", None
    if len(reads) != 1:
        lookup_ok, lookup_why = False, f"the dispatcher reads commands_mapping {len(reads)} times"
    else:
        g = parent.get(reads[0])
        c = parent.get(g)
        a = parent.get(c)
        if not (
            src(reads[0].value) == "self" and isinstance(g, ast.Attribute) and g.attr == "get" and isinstance(c, ast.Call) and c.func is g
            and len(c.args) == 1 and not c.keywords and isinstance(c.args[0], ast.Name) and c.args[0].id == verb_var
            and isinstance(a, ast.Assign) and a.value is c and len(a.targets) == 1 and isinstance(a.targets[0], ast.Name)
        ):
            lookup_ok, lookup_why = False, f"commands_mapping is used as {src(a or c or g)[:80]}"
        else:
            handler_var = a.targets[0].id
            roles[handler_var] = "@handler"
    stores = {}
    for n in ast.walk(disp):
        if isinstance(n, ast.Name) and isinstance(n.ctx, (ast.Store, ast.Del)):
            stores[n.id] = stores.get(n.id, 0) + 1
        elif isinstance(n, ast.arg):
            stores[n.arg] = stores.get(n.arg, 0) + 1
    for v in (verb_var, rest_var, handler_var):
        if lookup_ok and v is not None and stores.get(v, 0) != 1:
            lookup_ok, lookup_why = False, f"{roles[v]} local is bound {stores.get(v, 0)} times in the dispatcher"
    # other readers of the mapping (outside __init__ and the dispatcher) would be a second way to reach a handler
    for name, m in server.items():
        if name not in ("__init__", "dispatcher") and any(isinstance(n, ast.Attribute) and n.attr == "commands_mapping" for n in ast.walk(m)):
            lookup_ok, lookup_why = False, f"commands_mapping is also used in Server.{name}"
    disp_rest_sinks = [roles.get(x, x) for x in rest_sinks(disp, rest_var, parent)]
    pc_calls_default = True
    n_calls = 0
    for n in ast.walk(tree):
        if isinstance(n, ast.Call) and isinstance(n.func, ast.Attribute) and n.func.attr == "parse_command":
            n_calls += 1
            if len(n.args) != 1 or n.keywords:
                pc_calls_default = False
    if n_calls == 0:
        raise Unclassified("parse_command is never called")
    # parse_command returns (cmd.lower(), rest): what the dispatcher looks up is the lowered verb
    pc = server["parse_command"]
    rets = [n for n in ast.walk(pc) if isinstance(n, ast.Return)]
    returns_lower = len(rets) == 1 and isinstance(rets[0].value, ast.Tuple) and len(rets[0].value.elts) == 2 and src(rets[0].value.elts[0]).endswith(".lower()")
    return {
        "handler": handler_name,
        "pass_verbs": pass_verbs,
        "mapping_literal": mapping_literal,
        "replies": replies,
        "literal": lit,
        "sinks": sinks,
        "guard_replies": guard_replies,
        "deco_sinks": deco_sinks,
        "unknown_names": sorted(set(roles.get(x, x) for x in unknown_names)),
        "verb_var": verb_var,
        "rest_var": rest_var,
        "lookup_ok": lookup_ok,
        "lookup_why": lookup_why,
        "disp_rest_sinks": disp_rest_sinks,
        "pc_calls_default": pc_calls_default,
        "returns_lower": returns_lower,
    }


def secret_repr_classes(tree):
    """class name -> fields, for the classes of a module whose __repr__ / __str__ / __format__ reads a field that holds the
    password: a field named by / assigned from __init__'s `password` parameter"""
    out = {}
    for cls in tree.body:
        if not isinstance(cls, ast.ClassDef):
            continue
        m = methods_of(cls)
        init = m.get("__init__")
        if init is None or "password" not in [a.arg for a in init.args.args + init.args.kwonlyargs]:
            continue
        fields, pw_fields = set(), set()
        for n in ast.walk(init):
            if isinstance(n, ast.Assign):
                for t in n.targets:
                    if isinstance(t, ast.Attribute) and isinstance(t.value, ast.Name) and t.value.id == "self":
                        fields.add(t.attr)
                        if "password" in names_in(n.value):
                            pw_fields.add(t.attr)
        for name in ("__repr__", "__str__", "__format__"):
            if name in m and any(isinstance(n, ast.Attribute) and n.attr in pw_fields and isinstance(n.value, ast.Name) and n.value.id == "self" for n in ast.walk(m[name])):
                out[cls.name] = fields
    return out


def task_result_vars(fn):
    """locals bound to `<task>.result()`"""
    return {
        n.targets[0].id
        for n in ast.walk(fn)
        if isinstance(n, ast.Assign) and len(n.targets) == 1 and isinstance(n.targets[0], ast.Name)
        and isinstance(n.value, ast.Call) and isinstance(n.value.func, ast.Attribute) and n.value.func.attr == "result" and not n.value.args
    }


def readline_vars(fn):
    """locals bound to an expression that awaits `<stream>.readline()`"""
    out = set()
    for n in ast.walk(fn):
        if isinstance(n, ast.Assign) and any(isinstance(m, ast.Attribute) and m.attr == "readline" for m in ast.walk(n.value)):
            out |= {m.id for t in n.targets for m in ast.walk(t) if isinstance(m, ast.Name)}
    return out


def nth_param(fn, i):
    a = [x.arg for x in fn.args.posonlyargs + fn.args.args]
    return [a[i]] if len(a) > i else []


def taint_closure(fn, seeds):
    """the locals of fn that can hold (a piece of) a value held by one of `seeds`: closed under bindings whose
    right-hand side carries a tainted name through operators, f-strings, containers, attribute / subscript / method
    calls ON a tainted receiver and str/repr/bytes/ascii/format of it.  The result of any other call is opaque (a
    reply code returned by self.command(cmd) is not the command).  Names are found by binding, not by spelling."""
    tainted = set(seeds)

    def carries(e):
        if isinstance(e, ast.Name):
            return e.id in tainted
        if isinstance(e, (ast.Attribute, ast.Subscript, ast.Starred, ast.Await, ast.FormattedValue)):
            return carries(e.value)
        if isinstance(e, ast.Call):
            if isinstance(e.func, ast.Attribute) and carries(e.func.value):
                return True
            if isinstance(e.func, ast.Name) and e.func.id in ("str", "repr", "ascii", "bytes", "format", "bytearray"):
                return any(carries(a) for a in e.args)
            if isinstance(e.func, ast.Attribute) and e.func.attr in ("join", "format"):
                return any(carries(a) for a in e.args) or any(carries(k.value) for k in e.keywords)
            return False
        if isinstance(e, (ast.Lambda, ast.ListComp, ast.SetComp, ast.DictComp, ast.GeneratorExp)):
            return any(isinstance(m, ast.Name) and m.id in tainted for m in ast.walk(e))
        return any(carries(c) for c in ast.iter_child_nodes(e) if isinstance(c, ast.expr))

    changed = True
    while changed:
        changed = False
        for n in ast.walk(fn):
            pairs = []
            if isinstance(n, ast.Assign):
                pairs = [(t, n.value) for t in n.targets]
            elif isinstance(n, (ast.AugAssign, ast.AnnAssign, ast.NamedExpr)) and n.value is not None:
                pairs = [(n.target, n.value)]
            elif isinstance(n, (ast.For, ast.AsyncFor)):
                pairs = [(n.target, n.iter)]
            for t, v in pairs:
                if carries(v):
                    for m in ast.walk(t):
                        if isinstance(m, ast.Name) and isinstance(m.ctx, ast.Store) and m.id not in tainted:
                            tainted.add(m.id)
                            changed = True
    return tainted


def secret_raises(mod, specs):
    """raise statements whose expression mentions a password-bearing local, in the listed functions.  A spec is
    (function path, seeds): seeds a list of names or a function node -> names; the password-bearing locals are the
    taint closure of the seeds (identified by what they are bound to)"""
    out = []
    for path, seeds in specs:
        node = mod.tree
        ok = True
        for part in path.split("."):
            nxt = None
            for c in ast.walk(node) if not isinstance(node, ast.Module) else node.body:
                if isinstance(c, (ast.ClassDef, ast.FunctionDef, ast.AsyncFunctionDef)) and c.name == part and c is not node:
                    nxt = c
                    break
            if nxt is None:
                ok = False
                break
            node = nxt
        if not ok:
            raise Unclassified(f"{mod.file}: function {path} not found")
        tainted = taint_closure(node, seeds(node) if callable(seeds) else seeds)
        for n in ast.walk(node):
            if isinstance(n, ast.Raise) and n.exc is not None:
                if set(names_in(n.exc)) & set(tainted):
                    out.append((f"{mod.file}:{path}", src(n)[:120]))
    return out


def client_login_facts(mod):
    tree, parent = mod.tree, mod.parent
    classes = {n.name: n for n in tree.body if isinstance(n, ast.ClassDef)}
    login = None
    for cname, cls in classes.items():
        m = methods_of(cls)
        if "login" in m:
            if login is not None:
                raise Unclassified("two login methods")
            login = m["login"]
            login_cls = cname
    if login is None:
        raise Unclassified("Client.login not found")
    params = [a.arg for a in login.args.args]
    if "password" not in params:
        raise Unclassified("login has no `password` parameter")
    # every read of `password` in login
    uses = [n for n in ast.walk(login) if isinstance(n, ast.Name) and n.id == "password" and isinstance(n.ctx, ast.Load)]
    if len(uses) != 1:
        raise Unclassified(f"login: `password` is read {len(uses)} times (expected once)")
    binop = parent[uses[0]]
    assign = parent.get(binop)
    if not (
        isinstance(binop, ast.BinOp)
        and isinstance(binop.op, ast.Add)
        and binop.right is uses[0]
        and isinstance(binop.left, ast.Constant)
        and isinstance(binop.left.value, str)
        and isinstance(assign, ast.Assign)
        and len(assign.targets) == 1
        and isinstance(assign.targets[0], ast.Name)
    ):
        raise Unclassified(f"login: password used as {src(parent[uses[0]])[:60]} (expected VAR = 'LITERAL' + password)")
    prefix = binop.left.value
    cmd_var = assign.targets[0].id
    # the branch (statement list) that holds the assignment
    holder = parent[assign]
    block = None
    for field in ("body", "orelse", "finalbody"):
        b = getattr(holder, field, None)
        if isinstance(b, list) and assign in b:
            block = b
    if block is None:
        raise Unclassified("login: PASS assignment not in a statement block")
    idx = block.index(assign)
    censor_var, censor_val = None, None
    for st in block[idx + 1 :]:
        if isinstance(st, ast.Assign) and len(st.targets) == 1 and isinstance(st.targets[0], ast.Name) and isinstance(st.value, ast.Constant) and isinstance(st.value.value, int) and not isinstance(st.value.value, bool):
            censor_var, censor_val = st.targets[0].id, st.value.value
        elif isinstance(st, ast.Assign) and any(isinstance(m, ast.Name) and m.id == cmd_var for t in st.targets for m in ast.walk(t)):
            raise Unclassified("login: command variable rebound after the PASS assignment")
        else:
            raise Unclassified(f"login: unexpected statement after the PASS assignment: {src(st)[:60]}")
    if censor_var is None:
        # no censor index set on the PASS branch: record 0 (falsy => uncensored)
        censor_var, censor_val = "", 0
    # the command is sent by self.command(cmd_var, ..., censor_after=censor_var), reached from the branch
    # without rebinding either variable: require the call to follow the if-ladder in the same loop body
    calls = [
        n
        for n in ast.walk(login)
        if isinstance(n, ast.Call) and src(n.func) == "self.command" and n.args and isinstance(n.args[0], ast.Name) and n.args[0].id == cmd_var
    ]
    if len(calls) != 1:
        raise Unclassified(f"login: expected exactly one self.command({cmd_var}, ...) call")
    kw = {k.arg: k.value for k in calls[0].keywords}
    passed = kw.get("censor_after")
    if len(calls[0].args) >= 4:
        passed = calls[0].args[3]
    forwards = isinstance(passed, ast.Name) and passed.id == censor_var
    # all bindings of censor_var in login: the PASS one and constant None resets *before* the ladder
    others_ok = True
    ladder = holder
    while not isinstance(parent.get(ladder), (ast.While, ast.For, ast.AsyncFor, ast.FunctionDef, ast.AsyncFunctionDef)):
        ladder = parent[ladder]
    outer_block = parent[ladder].body
    if ladder not in outer_block:
        raise Unclassified("login: if-ladder is not directly in the loop body")
    li = outer_block.index(ladder)
    call_stmt = calls[0]
    while call_stmt not in outer_block:
        if call_stmt not in parent:
            raise Unclassified("login: self.command call is not in the loop body")
        call_stmt = parent[call_stmt]
    ci = outer_block.index(call_stmt)
    if ci <= li:
        raise Unclassified("login: the command is sent before the ladder")
    for st in outer_block[li + 1 : ci]:
        for m in ast.walk(st):
            if isinstance(m, ast.Name) and isinstance(m.ctx, ast.Store) and m.id in (cmd_var, censor_var):
                others_ok = False
    return {
        "class": login_cls,
        "prefix": prefix,
        "censor_after": censor_val,
        "forwards": bool(forwards and others_ok),
    }


def _login_fn(mod):
    login = None
    for n in mod.tree.body:
        if isinstance(n, ast.ClassDef) and "login" in methods_of(n):
            if login is not None:
                raise Unclassified("two login methods")
            login = methods_of(n)["login"]
    if login is None:
        raise Unclassified("Client.login not found")
    return login


def client_login_program(mod):
    """Client.login as a program (Lib/LogFacts.v login_prog), by shape:

        code, info = await self.command(LIT + PARAM, (CODES...))
        [CENSOR = CONST]...                                   (bound before the loop)
        while code.matches(MASK):
            [CENSOR = CONST]                                  (first statement: per-iteration reset)
            if code == C1: CMD = LIT1 + PARAM1 [; CENSOR = CONST1]   (either order)
            elif code == C2: ...
            else: raise ...
            code, info = await self.command(CMD, (CODES...), censor_after=CENSOR)

    CONST is None or an int literal.  Any other statement that binds CMD, CENSOR or `code`, any other
    shape of these statements, a censor variable that may be unbound when the command is sent: Unclassified.
    """
    login = _login_fn(mod)
    args = {"user": "ArgUser", "password": "ArgPassword", "account": "ArgAccount"}
    params = [a.arg for a in login.args.args]
    for a in args:
        if a not in params:
            raise Unclassified(f"login has no `{a}` parameter")
    body = list(login.body)
    if body and isinstance(body[0], ast.Expr) and isinstance(body[0].value, ast.Constant) and isinstance(body[0].value.value, str):
        body = body[1:]

    def const(v):
        """None / int literal -> model value (None = 0)"""
        if isinstance(v, ast.Constant) and v.value is None:
            return 0
        if isinstance(v, ast.Constant) and isinstance(v.value, int) and not isinstance(v.value, bool):
            return v.value
        raise Unclassified(f"login: censor value {src(v)[:60]} is not a constant")

    def lit_plus_param(e):
        if (
            isinstance(e, ast.BinOp) and isinstance(e.op, ast.Add) and isinstance(e.left, ast.Constant) and isinstance(e.left.value, str)
            and isinstance(e.right, ast.Name) and e.right.id in args
        ):
            return e.left.value, args[e.right.id]
        raise Unclassified(f"login: command built as {src(e)[:60]} (expected 'LITERAL' + parameter)")

    def codes(e):
        if isinstance(e, ast.Constant) and isinstance(e.value, str):
            return [e.value]
        if isinstance(e, (ast.Tuple, ast.List)) and all(isinstance(x, ast.Constant) and isinstance(x.value, str) for x in e.elts):
            return [x.value for x in e.elts]
        raise Unclassified(f"login: expected codes {src(e)[:60]} are not literals")

    reply_vars = []  # [<code>, <info>]: the locals every self.command(...) result is unpacked into (named by binding)

    def command_call(st):
        """`code, info = await self.command(A, CODES [, censor_after=X])` -> (A, codes, X or None)"""
        if not (
            isinstance(st, ast.Assign) and len(st.targets) == 1 and isinstance(st.targets[0], ast.Tuple)
            and len(st.targets[0].elts) == 2 and all(isinstance(t, ast.Name) for t in st.targets[0].elts)
            and (not reply_vars or [t.id for t in st.targets[0].elts] == reply_vars[0])
            and isinstance(st.value, ast.Await) and isinstance(st.value.value, ast.Call) and src(st.value.value.func) == "self.command"
        ):
            raise Unclassified(f"login: expected `<code>, <info> = await self.command(...)`, found {src(st)[:60]}")
        reply_vars.append([t.id for t in st.targets[0].elts])
        c = st.value.value
        kw = {k.arg: k.value for k in c.keywords}
        if None in kw or set(kw) - {"censor_after", "expected_codes"} or not (1 <= len(c.args) <= 2):
            raise Unclassified(f"login: self.command call of unexpected form: {src(c)[:80]}")
        exp = c.args[1] if len(c.args) == 2 else kw.get("expected_codes")
        if exp is None:
            raise Unclassified("login: self.command without expected codes")
        return c.args[0], codes(exp), kw.get("censor_after")

    if not body:
        raise Unclassified("login: empty body")
    a0, expected, cen0 = command_call(body[0])
    if cen0 is not None:
        raise Unclassified("login: the first command passes censor_after")
    first_prefix, first_arg = lit_plus_param(a0)
    code_var = reply_vars[0][0]
    loops = [i for i, st in enumerate(body) if isinstance(st, ast.While)]
    if len(loops) != 1:
        raise Unclassified("login: expected exactly one while loop")
    wi = loops[0]
    loop = body[wi]
    t = loop.test
    if not (
        isinstance(t, ast.Call) and src(t.func) == f"{code_var}.matches" and len(t.args) == 1 and not t.keywords
        and isinstance(t.args[0], ast.Constant) and isinstance(t.args[0].value, str) and not loop.orelse
    ):
        raise Unclassified(f"login: loop condition {src(t)[:60]} (expected code.matches('MASK'))")
    mask = t.args[0].value
    lbody = list(loop.body)
    if len(lbody) < 2:
        raise Unclassified("login: loop body too short")
    cmd_e, expected2, cen = command_call(lbody[-1])
    if expected2 != expected:
        raise Unclassified("login: the loop's command expects other codes than the first command")
    if not isinstance(cmd_e, ast.Name):
        raise Unclassified("login: the loop's command is not a variable")
    cmd_var = cmd_e.id
    if cen is None:
        censor_var = None
    elif isinstance(cen, ast.Name):
        censor_var = cen.id
    else:
        raise Unclassified(f"login: censor_after={src(cen)[:40]} is not a variable")

    def censor_bind(st):
        if censor_var is not None and isinstance(st, ast.Assign) and len(st.targets) == 1 and isinstance(st.targets[0], ast.Name) and st.targets[0].id == censor_var:
            return const(st.value)
        return None

    # between the first command and the loop: only constant bindings of the censor variable
    init = None
    for st in body[1:wi]:
        v = censor_bind(st)
        if v is None:
            raise Unclassified(f"login: unexpected statement before the loop: {src(st)[:60]}")
        init = v
    # after the loop: nothing may touch the variables any more (and the loop is over anyway)
    for st in body[wi + 1 :]:
        for m in ast.walk(st):
            if isinstance(m, ast.Name) and m.id in ("password", cmd_var, censor_var):
                raise Unclassified(f"login: statement after the loop mentions {m.id}")
    mid = lbody[:-1]
    reset = None
    if censor_bind(mid[0]) is not None:
        reset = censor_bind(mid[0])
        mid = mid[1:]
    if len(mid) != 1 or not isinstance(mid[0], ast.If):
        raise Unclassified("login: expected [reset;] if-ladder; self.command(...) in the loop body")
    branches = []
    node = mid[0]
    while True:
        c = node.test
        if not (
            isinstance(c, ast.Compare) and len(c.ops) == 1 and isinstance(c.ops[0], ast.Eq) and src(c.left) == code_var
            and isinstance(c.comparators[0], ast.Constant) and isinstance(c.comparators[0].value, str)
        ):
            raise Unclassified(f"login: branch condition {src(c)[:60]} (expected code == 'NNN')")
        prefix = arg = None
        bcen = None
        for st in node.body:
            v = censor_bind(st)
            if v is not None:
                bcen = v
            elif isinstance(st, ast.Assign) and len(st.targets) == 1 and isinstance(st.targets[0], ast.Name) and st.targets[0].id == cmd_var and prefix is None:
                prefix, arg = lit_plus_param(st.value)
            else:
                raise Unclassified(f"login: unexpected statement in a branch: {src(st)[:60]}")
        if prefix is None:
            raise Unclassified("login: a branch does not build the command")
        branches.append((c.comparators[0].value, prefix, arg, bcen))
        if len(node.orelse) == 1 and isinstance(node.orelse[0], ast.If):
            node = node.orelse[0]
            continue
        if not (len(node.orelse) == 1 and isinstance(node.orelse[0], ast.Raise)):
            raise Unclassified("login: the ladder's else is not a single raise")
        break
    if censor_var is not None and reset is None and init is None and any(b[3] is None for b in branches):
        raise Unclassified("login: the censor variable may be unbound when the command is sent")
    return {
        "first": ("", first_prefix, first_arg, None),
        "expected": expected,
        "mask": mask,
        "init": init,
        "reset": reset,
        "branches": branches,
    }


def login_program_fallback():
    """emitted when login() has another shape: a program on which login_prog_ok computes false"""
    return {"first": ("", "", "ArgPassword", None), "expected": [], "mask": "", "init": None, "reset": None, "branches": []}


def coq_login_program(lp):
    def br(b):
        code, prefix, arg, cen = b
        return "{| lb_code := %s; lb_prefix := %s; lb_arg := %s; lb_censor := %s |}" % (
            emit.text(code), emit.text(prefix), arg, "None" if cen is None else f"Some ({emit.z(cen)})")

    oz = lambda v: "None" if v is None else f"Some ({emit.z(v)})"
    return (
        "{|\n  lp_first := %s;\n  lp_expected := %s;\n  lp_loop_mask := %s;\n  lp_init_censor := %s;\n  lp_reset := %s;\n  lp_branches := %s\n|}"
        % (br(lp["first"]), emit.lst(emit.text(c) for c in lp["expected"]), emit.text(lp["mask"]), oz(lp["init"]), oz(lp["reset"]),
           emit.lst(br(b) for b in lp["branches"]))
    )


def client_password_uses(mod):
    """every read of a Name `password` in client.py: (enclosing function, shape)"""
    out = []
    for n in ast.walk(mod.tree):
        if isinstance(n, ast.Name) and n.id == "password" and isinstance(n.ctx, ast.Load):
            f = n
            while f in mod.parent and not isinstance(f, (ast.FunctionDef, ast.AsyncFunctionDef)):
                f = mod.parent[f]
            p = mod.parent[n]
            if isinstance(p, ast.Call) and n in p.args:
                if isinstance(p.func, ast.Attribute) and isinstance(p.func.value, ast.Name) and p.func.value.id not in ("self", "cls"):
                    shape = "arg:@obj." + p.func.attr  # a method of a local object (whatever the local is called)
                else:
                    shape = "arg:" + src(p.func)
            elif isinstance(p, ast.BinOp) and isinstance(p.left, ast.Constant):
                shape = "concat:" + repr(p.left.value)
            else:
                shape = "expr:" + src(p)[:60]
            out.append((getattr(f, "name", "?"), shape))
    return out


# ------------------------------------------------------------------ emit
def generate(src_dir):
    src_dir = Path(src_dir)
    mods = {}
    sites = []
    guards = []
    for f in FILES:
        m = Module(src_dir / f)
        m.censor_guards = []
        mods[f] = m
        sites += m.run()
        guards += m.censor_guards
    sv, cl = mods["server.py"], mods["client.py"]
    pf = server_pass_facts(sv)
    lf = client_login_facts(cl)
    # the censor set guarding Server.parse_command's log
    pc_guards = [g for g in guards if g["func"] == "Server.parse_command"]
    seen = []
    for g in pc_guards:
        if g["set"] not in seen:
            seen.append(g["set"])
    censor = seen[0] if len(seen) == 1 else []
    raises = secret_raises(
        sv,
        [
            ("Server.parse_command", readline_vars),  # the line read from the peer and everything cut from it
            (f"Server.{pf['handler']}", lambda fn: nth_param(fn, 2)),  # handler(self, connection, <rest>)
            ("ConnectionConditions.__call__", lambda fn: [p for w in fn.body if isinstance(w, (ast.FunctionDef, ast.AsyncFunctionDef)) for p in nth_param(w, 2)]),
            ("MemoryUserManager.authenticate", lambda fn: nth_param(fn, 2)),  # authenticate(self, user, <password>)
            ("Server.dispatcher", task_result_vars),  # the (verb, rest) pair parse_command returned
        ],
    ) + secret_raises(cl, [("BaseClient.command", lambda fn: nth_param(fn, 1)), (f"{lf['class']}.login", ["password"])])
    pw_uses = client_password_uses(cl)
    try:
        lp, lp_why = client_login_program(cl), ""
    except Unclassified as e:
        lp, lp_why = None, str(e)

    out = emit.HEADER.format(src=str(src_dir))
    out += "From Coq Require Import String.\nFrom Verif Require Import Lib.LogFacts.\nOpen Scope string_scope.\n\n"
    out += "Definition translator_ok_logging : bool := true.\n\n"
    rows = []
    for s in sites:
        rows.append(
            # no source text and no line number in the output: a fact must not change when locals are renamed or lines move
            "  {| ls_file := %s; ls_func := %s; ls_level := %s; ls_fmt := %s;\n     ls_srcs := [%s] |}"
            % (
                S(s["file"]),
                S(s["func"]),
                S(s["level"]),
                emit.option(s["fmt"], S),
                "; ".join(coq_src(v) for v in s["srcs"]),
            )
        )
    out += "Definition sites : list logsite := [\n" + ";\n".join(rows) + "\n].\n\n"
    out += f"Definition files_scanned : list string := {slist(FILES)}.\n\n"
    out += "(* Server.parse_command: the collection `cmd.lower()` is tested against before the command line is logged *)\n"
    out += "Definition server_censor_commands : list (list Z) := " + emit.lst(emit.text(c) for c in censor) + ".\n"
    out += f"Definition server_censor_guard_count : Z := {len(pc_guards)}.\n"
    out += f"Definition parse_command_called_with_default : bool := {emit.boolean(pf['pc_calls_default'])}.\n"
    out += f"Definition parse_command_returns_lowered_verb : bool := {emit.boolean(pf['returns_lower'])}.\n\n"
    out += "(* the handler bound to verb ""pass"" in commands_mapping *)\n"
    out += f"Definition pass_handler : string := {S(pf['handler'])}.\n"
    out += "(* every key of commands_mapping bound to that handler; the mapping is a literal dict of ""verb"": self.<method>, assigned once *)\n"
    out += "Definition pass_handler_verbs : list (list Z) := " + emit.lst(emit.text(c) for c in pf["pass_verbs"]) + ".\n"
    out += f"Definition commands_mapping_literal : bool := {emit.boolean(pf['mapping_literal'])}.\n"
    pr = lambda l: emit.lst(f"({emit.text(a)}, {emit.text(b)})" for a, b in l)
    out += f"Definition pass_replies : list (list Z * list Z) := {pr(pf['replies'])}.\n"
    out += f"Definition pass_replies_literal : bool := {emit.boolean(pf['literal'])}.\n"
    out += f"Definition pass_guard_replies : list (list Z * list Z) := {pr(pf['guard_replies'])}.\n"
    out += f"Definition pass_rest_sinks : list string := {slist(pf['sinks'])}.\n"
    out += f"Definition pass_decorator_rest_sinks : list string := {slist(pf['deco_sinks'])}.\n"
    out += f"Definition dispatcher_rest_sinks : list string := {slist(pf['disp_rest_sinks'])}.\n"
    out += "(* the handler of a line is `self.commands_mapping.get(<the verb parse_command returned>)`, the only read of the mapping *)\n"
    if not pf["lookup_ok"]:
        out += "(* NOT SO: " + pf["lookup_why"].replace("*)", "* )").replace("(*", "( *") + " *)\n"
    out += f"Definition dispatcher_lookup_by_parsed_verb : bool := {emit.boolean(pf['lookup_ok'])}.\n"
    out += f"Definition unknown_verb_reply_names : list string := {slist(pf['unknown_names'])}.\n\n"
    out += "(* Client.login: cmd = <prefix> + password ; censor_after = <int> ; self.command(cmd, ..., censor_after=censor_after) *)\n"
    out += f"Definition login_pass_prefix : list Z := {emit.text(lf['prefix'])}.\n"
    out += f"Definition login_pass_censor_after : Z := {emit.z(lf['censor_after'])}.\n"
    out += f"Definition login_forwards_censor_after : bool := {emit.boolean(lf['forwards'])}.\n"
    out += "\n(* Client.login as a program: first command, loop mask, per-iteration reset of censor_after, one branch per reply code *)\n"
    if lp is None:
        out += "(* NOT TRANSLATED: " + lp_why.replace("*)", "* )").replace("(*", "( *") + " *)\n"
    out += f"Definition login_program_translated : bool := {emit.boolean(lp is not None)}.\n"
    out += f"Definition login_program : login_prog := {coq_login_program(lp or login_program_fallback())}.\n"
    out += "Definition client_password_uses : list (string * string) := " + emit.lst(f"({S(a)}, {S(b)})" for a, b in pw_uses) + ".\n\n"
    out += "(* classes whose __repr__/__str__ prints the password they hold, and logging arguments that are such an object *)\n"
    out += f"Definition secret_repr_classes : list string := {slist(sorted(c for m in mods.values() for c in m.secret_classes))}.\n"
    sec = []
    for m in mods.values():
        for x in m.secret_args:
            if x not in sec:
                sec.append(x)
    out += "Definition secret_object_log_args : list (string * string) := " + emit.lst(f"({S(a)}, {S(b)})" for a, b in sec) + ".\n\n"
    out += "(* raise statements built from a password-bearing local, in the functions that hold one *)\n"
    out += "Definition secret_raise_sites : list (string * string) := " + emit.lst(f"({S(a)}, {S(b)})" for a, b in raises) + ".\n"
    return out
