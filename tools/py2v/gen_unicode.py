"""Gen/Unicode.v: character-class tables of the *running interpreter*."""
from . import emit


def ranges(pred):
    out = []
    start = None
    for c in range(0x110000):
        if pred(chr(c)):
            if start is None:
                start = c
        elif start is not None:
            out.append((start, c - 1))
            start = None
    if start is not None:
        out.append((start, 0x10FFFF))
    return out


def generate():
    sp = [c for c in range(0x110000) if chr(c).isspace()]
    dig = ranges(str.isdigit)
    dec = ranges(str.isdecimal)
    # sanity: every decimal range is a whole number of 0..9 blocks starting at a zero digit
    import unicodedata

    for lo, hi in dec:
        assert (hi - lo + 1) % 10 == 0, (lo, hi)
        for c in range(lo, hi + 1):
            assert unicodedata.decimal(chr(c)) == (c - lo) % 10
    low = [(c, chr(c).lower()) for c in range(128, 0x110000) if chr(c).lower() != chr(c)]
    s = emit.HEADER.format(src="the running CPython (str.isspace/isdigit/isdecimal/lower)")
    s += "Definition space_chars : list Z := " + emit.lst(emit.z(c) for c in sp) + ".\n"
    pr = lambda rs: emit.lst(f"({a}, {b})" for a, b in rs)
    s += "Definition digit_ranges : list (Z * Z) := " + pr(dig) + ".\n"
    s += "Definition decimal_ranges : list (Z * Z) := " + pr(dec) + ".\n"
    s += (
        "Definition lower_table : list (Z * list Z) := "
        + emit.lst(f"({c}, {emit.text(l)})" for c, l in low)
        + ".\n"
    )
    return s
