#!/usr/bin/env python3
"""resolve a merge conflict in known_findings.json: union of findings / fixed entries by id (ours first)"""
import json, subprocess
def stage(n):
    return json.loads(subprocess.run(["git", "show", f":{n}:known_findings.json"], capture_output=True, text=True, cwd="/verif").stdout)
ours, theirs = stage(2), stage(3)
out = dict(ours)
for key in ("findings", "fixed"):
    seen = {json.dumps(f.get("id", f), sort_keys=True) for f in ours.get(key, [])}
    out[key] = list(ours.get(key, []))
    for f in theirs.get(key, []):
        k = json.dumps(f.get("id", f), sort_keys=True)
        if k not in seen:
            out[key].append(f); seen.add(k)
open("/verif/known_findings.json", "w").write(json.dumps(out, indent=1, ensure_ascii=False) + "\n")
print(len(out["findings"]), "findings", [f["id"] for f in out["findings"]])
