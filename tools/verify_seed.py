#!/usr/bin/env python3
"""tools/verify_seed.py <Cxx> <n> [name]: confirm a breaker's change n for property Cxx and file it under seeded/.
Confirms in the breaker's scratch worktree: (1) demo passes on the pinned tree, (2) with the change the
existing suite still passes (same count as baseline) and (3) the demo fails; then applies the change to
/repo, runs `bin/check Cxx quick` (and thorough if quick misses it), undoes it, and records everything."""
import json, os, subprocess, sys, shutil, re, time
pid, n = sys.argv[1], sys.argv[2]
RND = os.environ.get("SEED_ROUND", "")
wt = f"/tmp/brk{RND}-{pid}"; out = f"/tmp/brk{RND}-{pid}.out"
diff = f"{out}/change{n}.diff"; demo = f"{out}/change{n}_demo.py"
env = dict(os.environ, PYTHONPATH=f"{wt}/src", PYTHONHASHSEED="0")
def sh(cmd, **kw):
    p = subprocess.run(cmd, shell=True, capture_output=True, text=True, **kw)
    return p.returncode, (p.stdout + p.stderr)
def tests():
    rc, o = sh(f"cd {wt} && /venv/bin/python -m pytest -q -p no:cacheprovider --timeout=300 tests/ 2>&1 | tail -3", env=env)
    m = re.search(r"(\d+) passed", o); f = re.search(r"(\d+) failed", o)
    return int(m.group(1)) if m else -1, int(f.group(1)) if f else 0, o.strip().splitlines()[-1]
assert sh(f"git -C {wt} status --porcelain")[1].strip() == "", "scratch worktree not clean"
meta = {"property": pid, "change": int(n), "ran": []}
rc0, o0 = sh(f"cd {wt} && /venv/bin/python {demo}", env=env, timeout=300)
meta["demo_unchanged_rc"] = rc0
assert sh(f"git -C {wt} apply {diff}")[0] == 0, "diff does not apply"
try:
    p, f, line = tests(); meta["tests_with_change"] = line
    rc1, o1 = sh(f"cd {wt} && /venv/bin/python {demo}", env=env, timeout=300)
    meta["demo_changed_rc"] = rc1; meta["demo_changed_output"] = o1[-600:]
finally:
    sh(f"git -C {wt} checkout -- . && git -C {wt} clean -fdq")
ok = rc0 == 0 and rc1 != 0 and p == 335 and f == 1
meta["confirmed"] = ok
print(json.dumps(meta, indent=1))
if not ok:
    print("NOT CONFIRMED"); sys.exit(1)
# run our checks against it: either on /repo itself (apply, check, undo) or -- while builder agents are
# using /repo -- on the scratch worktree through VERIF_REPO (SEED_MODE=copy; same code path in bin/check)
MODE = os.environ.get("SEED_MODE", "repo")
VTREE = os.environ.get("SEED_VERIF", "/verif")  # a built worktree of /verif to run the check in (default /verif itself)
target = "/repo" if MODE == "repo" else wt
assert sh(f"git -C {target} status --porcelain")[1].strip() == "", f"{target} not clean"
res = {}
for tier in tuple(os.environ.get("SEED_TIERS", "quick,thorough").split(",")):
    assert sh(f"git -C {target} apply {diff}")[0] == 0
    try:
        t0 = time.time()
        pre = "" if MODE == "repo" else f"VERIF_REPO={wt} "
        rc, o = sh(f"cd {VTREE} && {pre}bin/check {pid} {tier} 2>&1 | grep -v '^Exception in callback\\|^handle:' | tail -15", timeout=(600 if tier == "quick" else 2400))
        viol = [l for l in o.splitlines() if l.startswith("VIOLATION")]
        summ = [l for l in o.splitlines() if l.startswith(f"[{pid}]")]
        res[tier] = {"violations": viol[:5], "summary": summ[-1] if summ else o[-300:], "wall_s": round(time.time() - t0)}
        # keep one replay file content
        if viol:
            m = re.search(r"replay=(\S+)", viol[0])
            if m and os.path.exists(m.group(1)):
                res[tier]["replay_excerpt"] = open(m.group(1)).read()[:1500]
    except subprocess.TimeoutExpired:
        res[tier] = {"violations": [], "summary": f"NO VERDICT: bin/check {pid} {tier} did not finish within the limit on this change", "wall_s": -1}
    finally:
        sh(f"git -C {target} checkout -- .")
        sh(f"git -C {VTREE} checkout -- evidence/{pid}.json")
    if res[tier]["violations"]:
        break
meta["check"] = res
meta["detected"] = any(r["violations"] for r in res.values())
meta["detected_with_concrete_input"] = any(v and "no-failing-input-found" not in v[0] for v in [r["violations"] for r in res.values()])
d = f"/verif/seeded/{pid}-" + (f"r{RND}-" if RND else "") + f"{n}"
os.makedirs(d, exist_ok=True)
shutil.copy(diff, f"{d}/patch.diff"); shutil.copy(demo, f"{d}/demo.py")
notes = open(f"{out}/NOTES.md").read() if os.path.exists(f"{out}/NOTES.md") else ""
meta["needs_to_manifest"] = "see NOTES.md excerpt"; meta["breaker_notes"] = notes[:20000]
meta["what_was_run"] = f"scratch worktree {wt}: demo on pinned tree (rc {rc0}), full pytest suite with the change ({line}), demo with the change (rc {rc1}); then " + ("`git -C /repo apply patch.diff; bin/check {pid} <tier>; git -C /repo checkout -- .`" if MODE == "repo" else f"patch applied in the scratch worktree and `VERIF_REPO={wt} bin/check {pid} <tier>` (builders were using /repo at the time)")
json.dump(meta, open(f"{d}/meta.json", "w"), indent=1)
sh(f"rm -rf {VTREE}/evidence/replay")
sh(f"git -C {VTREE} checkout -- evidence/{pid}.json")  # the run on the changed tree rewrote it
print("DETECTED" if meta["detected"] else "MISSED", json.dumps(res, indent=1)[:1500])
