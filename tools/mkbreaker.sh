#!/bin/bash
# tools/mkbreaker.sh Cxx : create a scratch worktree of /repo and the property text for an independent breaker agent
id="$1"; r="${2:-}"
git -C /repo worktree add -q --detach /tmp/brk$r-$id HEAD && mkdir -p /tmp/brk$r-$id.out
python3 - "$id" "$r" <<'PY'
import json,sys
for l in open('/verif/properties.jsonl'):
    p=json.loads(l)
    if p['id']==sys.argv[1]:
        t=f"{p['id']} — {p['title']}\n\nStatement: {p['statement']}\n\nQuantifier: {p['quantifier']['text']}\n\nAnchored code: {', '.join(p['anchors']['files'])}\n" + "\n".join('  - '+m.get('name','')+' @ '+m.get('where','') for m in p['anchors']['mechanism'])+"\n"
        open(f"/tmp/brk{sys.argv[2]}-{p['id']}.out/PROPERTY.txt","w").write(t); print(t)
PY
